// Package tr reads case files and writes ndjson traces.
package tr

import (
	"bufio"
	"encoding/json"
	"fmt"
	"os"
	"strconv"
	"sync"
)

// M is a JSON object.
type M = map[string]any

// ReadCases reads an ndjson file.
func ReadCases(path string) []M {
	f, err := os.Open(path)
	if err != nil {
		panic(err)
	}
	defer f.Close()
	var out []M
	sc := bufio.NewScanner(f)
	sc.Buffer(make([]byte, 1<<20), 1<<28)
	for sc.Scan() {
		if len(sc.Bytes()) == 0 {
			continue
		}
		var m M
		d := json.NewDecoder(bytesReader(sc.Bytes()))
		d.UseNumber()
		if err := d.Decode(&m); err != nil {
			panic(fmt.Sprintf("bad case line: %v: %s", err, sc.Text()))
		}
		out = append(out, m)
	}
	if err := sc.Err(); err != nil {
		panic(err)
	}
	return out
}

// W writes ndjson.
type W struct {
	mu sync.Mutex
	f  *os.File
	b *bufio.Writer
	N int
}

func NewW(path string) *W {
	f, err := os.Create(path)
	if err != nil {
		panic(err)
	}
	return &W{f: f, b: bufio.NewWriterSize(f, 1<<20)}
}

func (w *W) Emit(m M) {
	b, err := json.Marshal(m)
	if err != nil {
		panic(err)
	}
	w.mu.Lock()
	defer w.mu.Unlock()
	w.b.Write(b)
	w.b.WriteByte('\n')
	w.N++
}

func (w *W) Close() {
	w.b.Flush()
	w.f.Close()
}

// Int reads an integer field (json.Number, float64 or string).
func Int(v any) int {
	switch x := v.(type) {
	case json.Number:
		n, err := x.Int64()
		if err != nil {
			f, _ := x.Float64()
			return int(f)
		}
		return int(n)
	case float64:
		return int(x)
	case int:
		return x
	case string:
		n, _ := strconv.Atoi(x)
		return n
	case bool:
		if x {
			return 1
		}
		return 0
	case nil:
		return 0
	}
	panic(fmt.Sprintf("not an int: %T %v", v, v))
}

func Str(v any) string {
	if v == nil {
		return ""
	}
	if s, ok := v.(string); ok {
		return s
	}
	return fmt.Sprint(v)
}

func Bool(v any) bool {
	b, _ := v.(bool)
	return b
}

func List(v any) []any {
	if v == nil {
		return nil
	}
	return v.([]any)
}

func Map(v any) M {
	if v == nil {
		return nil
	}
	return v.(M)
}
