// Package sched is a deterministic gate scheduler for goroutines of the code
// under test. Goroutines started through Go() park at every verifhook gate
// until released; Settle() waits until every controlled goroutine is parked,
// blocked or finished.
package sched

import (
	"bytes"
	"fmt"
	"runtime"
	"strconv"
	"strings"
	"sync"
	"time"

	"github.com/gotd/td/verifhook"
)

type parked struct {
	point uint16
	key   int64
	rel   chan struct{}
}

// S is a scheduler.
type S struct {
	mu       sync.Mutex
	names    map[uint64]string
	gids     map[string]uint64
	parked   map[string]*parked
	finished map[string]bool
	// Watch are substrings of function names; goroutines (not started through Go)
	// whose stack contains one of them are also required to be blocked for quiescence.
	Watch []string
	// PassThrough disables parking (free-running mode) but keeps bookkeeping off.
	PassThrough bool
	// OnGate, when set, is called (in the gated goroutine) before parking.
	OnGate func(name string, point uint16, key int64)
	// OnAny, when set, is called for every gate hit by any goroutine (registered or not).
	OnAny func(point uint16, key int64)
	// NoPark lists points that never park (event-only gates, e.g. those hit under a mutex).
	NoPark map[uint16]bool
}

// New creates a scheduler and installs it as the verifhook handler.
func New() *S {
	s := &S{names: map[uint64]string{}, gids: map[string]uint64{}, parked: map[string]*parked{}, finished: map[string]bool{}}
	verifhook.Install(s.gate)
	return s
}

// Close uninstalls the handler and releases everything still parked.
func (s *S) Close() {
	verifhook.Install(nil)
	s.mu.Lock()
	s.PassThrough = true
	for k, p := range s.parked {
		close(p.rel)
		delete(s.parked, k)
	}
	s.mu.Unlock()
}

func gid() uint64 {
	var b [64]byte
	n := runtime.Stack(b[:], false)
	// "goroutine 123 [running]:"
	f := bytes.Fields(b[:n])
	id, _ := strconv.ParseUint(string(f[1]), 10, 64)
	return id
}

// Go starts f in a new controlled goroutine called name.
func (s *S) Go(name string, f func()) {
	ready := make(chan struct{})
	go func() {
		id := gid()
		s.mu.Lock()
		s.names[id] = name
		s.gids[name] = id
		delete(s.finished, name)
		s.mu.Unlock()
		close(ready)
		defer func() {
			s.mu.Lock()
			s.finished[name] = true
			delete(s.names, id)
			delete(s.gids, name)
			s.mu.Unlock()
		}()
		f()
	}()
	<-ready
}

// Park parks the calling controlled goroutine at a harness-defined point.
func (s *S) Park(point uint16, key int64) { s.gate(point, key) }

func (s *S) gate(point uint16, key int64) {
	if s.OnAny != nil {
		s.OnAny(point, key)
	}
	id := gid()
	s.mu.Lock()
	name, ok := s.names[id]
	if !ok || s.PassThrough || s.NoPark[point] {
		s.mu.Unlock()
		return
	}
	if s.OnGate != nil {
		s.mu.Unlock()
		s.OnGate(name, point, key)
		s.mu.Lock()
	}
	p := &parked{point: point, key: key, rel: make(chan struct{})}
	s.parked[name] = p
	s.mu.Unlock()
	<-p.rel
}

// At reports the gate a goroutine is parked at.
func (s *S) At(name string) (point uint16, key int64, ok bool) {
	s.mu.Lock()
	defer s.mu.Unlock()
	p, ok := s.parked[name]
	if !ok {
		return 0, 0, false
	}
	return p.point, p.key, true
}

// Finished reports whether the goroutine has returned (or was never started).
func (s *S) Finished(name string) bool {
	s.mu.Lock()
	defer s.mu.Unlock()
	return s.finished[name]
}

// Alive reports whether the goroutine is started and not finished.
func (s *S) Alive(name string) bool {
	s.mu.Lock()
	defer s.mu.Unlock()
	_, ok := s.gids[name]
	return ok
}

// Release lets a parked goroutine continue; false if it is not parked.
func (s *S) Release(name string) bool {
	s.mu.Lock()
	p, ok := s.parked[name]
	if ok {
		delete(s.parked, name)
	}
	s.mu.Unlock()
	if ok {
		close(p.rel)
	}
	return ok
}

// ReleaseIfAt releases the goroutine only if it is parked at the given point.
func (s *S) ReleaseIfAt(name string, point uint16) bool {
	s.mu.Lock()
	p, ok := s.parked[name]
	if ok && p.point == point {
		delete(s.parked, name)
	} else {
		ok = false
	}
	s.mu.Unlock()
	if ok {
		close(p.rel)
	}
	return ok
}

var blockedStates = []string{"chan receive", "chan send", "select", "semacquire", "sync.Mutex", "sync.RWMutex", "sync.WaitGroup", "sync.Cond", "sleep", "IO wait", "GC assist", "finalizer wait"}

func isBlocked(hdr string) bool {
	i := strings.Index(hdr, "[")
	j := strings.Index(hdr, "]")
	if i < 0 || j < i {
		return false
	}
	st := hdr[i+1 : j]
	for _, b := range blockedStates {
		if strings.HasPrefix(st, b) {
			return true
		}
	}
	return false
}

func (s *S) quiescent() bool {
	buf := make([]byte, 1<<20)
	n := runtime.Stack(buf, true)
	s.mu.Lock()
	ids := make(map[uint64]bool, len(s.names))
	for id := range s.names {
		ids[id] = true
	}
	watch := s.Watch
	s.mu.Unlock()
	self := gid()
	for _, g := range strings.Split(string(buf[:n]), "\n\n") {
		nl := strings.Index(g, "\n")
		if nl < 0 {
			continue
		}
		hdr := g[:nl]
		f := strings.Fields(hdr)
		if len(f) < 2 {
			continue
		}
		id, _ := strconv.ParseUint(f[1], 10, 64)
		if id == self {
			continue
		}
		interesting := ids[id]
		if !interesting {
			for _, w := range watch {
				if strings.Contains(g, w) {
					interesting = true
					break
				}
			}
		}
		if !interesting {
			continue
		}
		if !isBlocked(hdr) {
			return false
		}
	}
	return true
}

// Settle waits until all controlled goroutines are parked, blocked or finished
// (three consecutive quiescent observations). It panics after 120 s.
func (s *S) Settle() {
	ok := 0
	deadline := time.Now().Add(120 * time.Second)
	for ok < 3 {
		runtime.Gosched()
		if s.quiescent() {
			ok++
		} else {
			ok = 0
			time.Sleep(20 * time.Microsecond)
		}
		if time.Now().After(deadline) {
			buf := make([]byte, 1<<20)
			n := runtime.Stack(buf, true)
			panic(fmt.Sprintf("sched: no quiescence after 120s\n%s", buf[:n]))
		}
	}
}
