// exchdrv runs the real exchange.ClientExchange against the real in-tree
// exchange.ServerExchange over an in-memory link with a man in the middle that
// applies the deviations of a TLC-generated strategy (Exchange.tla), or a peer
// that stalls at a chosen step.  It records what each side ended with; it
// contains no oracle.
package main

import (
	"context"
	crand "crypto/rand"
	"crypto/rsa"
	"flag"
	"fmt"
	"io"
	"math/big"
	"math/rand"
	"os"
	"sync"
	"time"

	"github.com/gotd/td/bin"
	"github.com/gotd/td/crypto"
	"github.com/gotd/td/exchange"
	"github.com/gotd/td/mt"
	"github.com/gotd/td/mtproto"
	"github.com/gotd/td/proto/codec"
	"github.com/gotd/td/proto"
	"github.com/gotd/td/transport"

	"verifharness/internal/tr"
)

// ---------------------------------------------------------------- in-memory link

type end struct {
	in     chan []byte
	out    chan []byte
	closed chan struct{}
	once   *sync.Once
	stall  *stallCtl
	side   string
}

type stallCtl struct {
	mu         sync.Mutex
	sendCount  int
	stallWrite int // client write number (1..3) that blocks, 0 = none
}

func (e *end) Send(ctx context.Context, b *bin.Buffer) error {
	if e.side == "client" && e.stall != nil {
		e.stall.mu.Lock()
		e.stall.sendCount++
		blocked := e.stall.stallWrite != 0 && e.stall.sendCount >= e.stall.stallWrite
		e.stall.mu.Unlock()
		if blocked {
			select {
			case <-ctx.Done():
				return ctx.Err()
			case <-e.closed:
				return io.ErrClosedPipe
			}
		}
	}
	select {
	case e.out <- append([]byte(nil), b.Buf...):
		return nil
	case <-ctx.Done():
		return ctx.Err()
	case <-e.closed:
		return io.ErrClosedPipe
	}
}

func (e *end) Recv(ctx context.Context, b *bin.Buffer) error {
	select {
	case f := <-e.in:
		b.ResetTo(f)
		return nil
	case <-ctx.Done():
		return ctx.Err()
	case <-e.closed:
		return io.EOF
	}
}

func (e *end) Close() error { e.once.Do(func() { close(e.closed) }); return nil }

var _ transport.Conn = (*end)(nil)

// ---------------------------------------------------------------- keys and malicious parameters

var (
	setupOnce           sync.Once
	trusted, attacker   *rsa.PrivateKey
	prodPrime           *big.Int
	primeNotSafe, p1024 *big.Int
	group14             *big.Int
)

// RFC 3526 group 14: a 2048-bit safe prime with p mod 3 = 2 (generator 3 passes CheckGP) that is not
// the prime Telegram's production servers use
const group14Hex = "FFFFFFFFFFFFFFFFC90FDAA22168C234C4C6628B80DC1CD129024E088A67CC74020BBEA63B139B22514A08798E3404DD" +
	"EF9519B3CD3A431B302B0A6DF25F14374FE1356D6D51C245E485B576625E7EC6F44C42E9A637ED6B0BFF5CB6F406B7ED" +
	"EE386BFB5A899FA5AE9F24117C4B1FE649286651ECE45B3DC2007CB8A163BF0598DA48361C55D39A69163FA8FD24CF5F" +
	"83655D23DCA3AD961C62F356208552BB9ED529077096966D670C354E4ABC9804F1746C08CA18217C32905E462E36CE3B" +
	"E39E772C180E86039B2783A2EC07A28FB5C55DF06F4C52C9DE2BCBF6955817183995497CEA956AE515D2261898FA0510" +
	"15728E5A8AACAA68FFFFFFFFFFFFFFFF"

const prodPrimeHex = "C71CAEB9C6B1C9048E6C522F70F13F73980D40238E3E21C14934D037563D930F48198A0AA7C14058229493D22530F4DBFA336F6E0AC925139543AED44CCE7C3720FD51F69458705AC68CD4FE6B6B13ABDC9746512969328454F18FAF8C595F642477FE96BB2A941D5BCD1D4AC8CC49880708FA9B378E3C4F3A9060BEE67CF9A4A4A695811051907E162753B56B0F6B410DBA74D8A84B2A14B3144E0EF1284754FD17ED950D5965B4B9DD46582DB1178D169C6BC465B0D6FF9CA3928FEF5B9AE4E418FC15E83EBEA0F87FA9FF5EED70050DED2849F47BF959D956850CE929851F0D8115F635B105EE2E4E15D04B2454BF6F4FADF034B10403119CD8E3B92FCC5B"

func setup() {
	setupOnce.Do(func() {
		trusted, _ = rsa.GenerateKey(crand.Reader, 2048)
		attacker, _ = rsa.GenerateKey(crand.Reader, 2048)
		prodPrime, _ = new(big.Int).SetString(prodPrimeHex, 16)
		group14, _ = new(big.Int).SetString(group14Hex, 16)
		if h := new(big.Int).Rsh(group14, 1); group14.BitLen() != 2048 || !group14.ProbablyPrime(20) || !h.ProbablyPrime(20) ||
			new(big.Int).Mod(group14, big.NewInt(3)).Int64() != 2 {
			panic("group14 constant is not a 2048-bit safe prime with p mod 3 = 2")
		}
		for {
			p, _ := crand.Prime(crand.Reader, 2048)
			h := new(big.Int).Rsh(new(big.Int).Sub(p, big.NewInt(1)), 1)
			// the generator 3 must pass CheckGP so that only primality of (p-1)/2 is at stake
			if !h.ProbablyPrime(20) && new(big.Int).Mod(p, big.NewInt(3)).Int64() == 2 {
				primeNotSafe = p
				break
			}
		}
		// a 1536-bit modulus (RFC 3526 group 5): wrong size for MTProto whatever else holds
		p1024, _ = new(big.Int).SetString("FFFFFFFFFFFFFFFFC90FDAA22168C234C4C6628B80DC1CD129024E088A67CC74020BBEA63B139B22514A08798E3404DDEF9519B3CD3A431B302B0A6DF25F14374FE1356D6D51C245E485B576625E7EC6F44C42E9A637ED6B0BFF5CB6F406B7EDEE386BFB5A899FA5AE9F24117C4B1FE649286651ECE45B3DC2007CB8A163BF0598DA48361C55D39A69163FA8FD24CF5F83655D23DCA3AD961C62F356208552BB9ED529077096966D670C354E4ABC9804F1746C08CA237327FFFFFFFFFFFFFFFF", 16)
	})
}

// badRNG is the authentic-but-malicious server's parameter source.
type badRNG struct {
	base  exchange.TestServerRNG
	dev   string
	prime string // "group14": the (honest) server uses another valid group
	r     io.Reader
}

func (b badRNG) PQ() (*big.Int, error) { return b.base.PQ() }
func (b badRNG) DhPrime() (*big.Int, error) {
	switch b.dev {
	case "dh_prime_not_prime":
		// keeps p mod 3 = 2 so that the generator check passes and only primality is at stake
		return new(big.Int).Add(prodPrime, big.NewInt(6)), nil
	case "dh_prime_not_safe":
		return primeNotSafe, nil
	case "dh_prime_1024":
		return p1024, nil
	}
	if b.prime == "group14" {
		return new(big.Int).Set(group14), nil
	}
	return b.base.DhPrime()
}
func (b badRNG) GA(g int, p *big.Int) (*big.Int, *big.Int, error) {
	// no parameter checks on this side: the malicious server sends what it likes
	a, _ := crand.Int(crand.Reader, new(big.Int).Lsh(big.NewInt(1), 2040))
	ga := new(big.Int).Exp(big.NewInt(int64(g)), a, p)
	var err error
	lo := new(big.Int).Lsh(big.NewInt(1), 1984)
	switch b.dev {
	case "ga_one":
		return big.NewInt(0), big.NewInt(1), nil
	case "ga_pm1":
		return big.NewInt(5), new(big.Int).Sub(p, big.NewInt(1)), nil
	case "ga_small":
		return big.NewInt(5), new(big.Int).Sub(lo, big.NewInt(5)), nil
	case "ga_big":
		return big.NewInt(5), new(big.Int).Add(new(big.Int).Sub(p, lo), big.NewInt(5)), nil
	case "ga_2p_plus1":
		// congruent to 1 mod p: with a = 0 both sides would derive the key 1
		return big.NewInt(0), new(big.Int).Add(new(big.Int).Lsh(p, 1), big.NewInt(1)), nil
	case "ga_p_plus_mid":
		// an honest g^a shifted by the modulus: same residue, out of range
		return a, new(big.Int).Add(p, ga), nil
	case "ga_max2048":
		v := new(big.Int).Lsh(big.NewInt(1), 2048)
		return big.NewInt(5), v.Sub(v, big.NewInt(1)), nil
	}
	return a, ga, err
}

// ---------------------------------------------------------------- man in the middle

func flip128(v *bin.Int128, rng *rand.Rand) { v[rng.Intn(16)] ^= 1 << uint(rng.Intn(8)) }
func flipBytes(b []byte, rng *rand.Rand) []byte {
	c := append([]byte(nil), b...)
	c[rng.Intn(len(c))] ^= 1 << uint(rng.Intn(8))
	return c
}

func reencode(id int64, obj bin.Encoder) []byte {
	d := &bin.Buffer{}
	if err := obj.Encode(d); err != nil {
		panic(err)
	}
	m := proto.UnencryptedMessage{MessageID: id, MessageData: d.Buf}
	out := &bin.Buffer{}
	if err := m.Encode(out); err != nil {
		panic(err)
	}
	return out.Buf
}

// tamper applies deviation dev to frame (message number n, 1..6); returns the frame to forward.
func tamper(n int, dev string, frame []byte, rng *rand.Rand) []byte {
	var um proto.UnencryptedMessage
	if err := um.Decode(&bin.Buffer{Buf: append([]byte(nil), frame...)}); err != nil {
		return frame
	}
	body := &bin.Buffer{Buf: um.MessageData}
	switch n {
	case 1:
		var m mt.ReqPqMultiRequest
		if m.Decode(body) != nil {
			return frame
		}
		flip128(&m.Nonce, rng)
		return reencode(um.MessageID, &m)
	case 2:
		var m mt.ResPQ
		if m.Decode(body) != nil {
			return frame
		}
		switch dev {
		case "nonce_flip":
			flip128(&m.Nonce, rng)
		case "server_nonce_flip":
			flip128(&m.ServerNonce, rng)
		case "fingerprint_untrusted":
			m.ServerPublicKeyFingerprints = []int64{crypto.RSAFingerprint(&attacker.PublicKey)}
		case "pq_other":
			m.Pq = new(big.Int).Mul(big.NewInt(1000003), big.NewInt(1000033)).Bytes()
		case "pq_too_big":
			m.Pq = new(big.Int).Add(new(big.Int).Lsh(big.NewInt(1), 64), big.NewInt(15)).Bytes()
		case "replay_old_respq":
			rng.Read(m.Nonce[:])
			rng.Read(m.ServerNonce[:])
		}
		return reencode(um.MessageID, &m)
	case 3:
		var m mt.ReqDHParamsRequest
		if m.Decode(body) != nil {
			return frame
		}
		switch dev {
		case "encrypted_data_flip":
			m.EncryptedData = flipBytes(m.EncryptedData, rng)
		case "p_q_swapped":
			m.P, m.Q = m.Q, m.P
		}
		return reencode(um.MessageID, &m)
	case 4:
		var m mt.ServerDHParamsOk
		if m.Decode(body) != nil {
			return frame
		}
		switch dev {
		case "nonce_flip":
			flip128(&m.Nonce, rng)
		case "server_nonce_flip":
			flip128(&m.ServerNonce, rng)
		case "answer_flip":
			m.EncryptedAnswer = flipBytes(m.EncryptedAnswer, rng)
		case "answer_forged", "replay_old_params":
			m.EncryptedAnswer = make([]byte, len(m.EncryptedAnswer))
			rng.Read(m.EncryptedAnswer)
		case "params_fail":
			f := mt.ServerDHParamsFail{Nonce: m.Nonce, ServerNonce: m.ServerNonce}
			rng.Read(f.NewNonceHash[:])
			return reencode(um.MessageID, &f)
		}
		return reencode(um.MessageID, &m)
	case 5:
		var m mt.SetClientDHParamsRequest
		if m.Decode(body) != nil {
			return frame
		}
		m.EncryptedData = flipBytes(m.EncryptedData, rng)
		return reencode(um.MessageID, &m)
	case 6:
		var m mt.DhGenOk
		if m.Decode(body) != nil {
			return frame
		}
		switch dev {
		case "nonce_flip":
			flip128(&m.Nonce, rng)
		case "server_nonce_flip":
			flip128(&m.ServerNonce, rng)
		case "hash_flip":
			flip128(&m.NewNonceHash1, rng)
		case "hash_of_other_key":
			rng.Read(m.NewNonceHash1[:])
		case "gen_retry":
			r := mt.DhGenRetry{Nonce: m.Nonce, ServerNonce: m.ServerNonce, NewNonceHash2: m.NewNonceHash1}
			return reencode(um.MessageID, &r)
		case "gen_fail":
			r := mt.DhGenFail{Nonce: m.Nonce, ServerNonce: m.ServerNonce, NewNonceHash3: m.NewNonceHash1}
			return reencode(um.MessageID, &r)
		}
		return reencode(um.MessageID, &m)
	}
	return frame
}

var serverSide = map[string]bool{"dh_prime_not_prime": true, "dh_prime_not_safe": true, "dh_prime_1024": true,
	"ga_one": true, "ga_pm1": true, "ga_small": true, "ga_big": true, "ga_2p_plus1": true, "ga_p_plus_mid": true, "ga_max2048": true}

// ---------------------------------------------------------------- one run

type outcome struct {
	client, server   string
	cerr, serr       string
	sameKey, nonzero bool
	sameSalt         bool
	elapsedMs        int
}

func runOnce(cs tr.M, rng *rand.Rand, timeout time.Duration, stallMsg, stallWrite int, ctxDeadline time.Duration) outcome {
	setup()
	devs := map[int]string{}
	rngDev := ""
	for _, d := range tr.List(cs["devs"]) {
		m := tr.Map(d)
		n := int(tr.Str(m["msg"])[1] - '0')
		if serverSide[tr.Str(m["dev"])] {
			rngDev = tr.Str(m["dev"])
		} else {
			devs[n] = tr.Str(m["dev"])
		}
	}
	closed := make(chan struct{})
	once := &sync.Once{}
	c2m, m2c := make(chan []byte, 8), make(chan []byte, 8)
	s2m, m2s := make(chan []byte, 8), make(chan []byte, 8)
	st := &stallCtl{stallWrite: stallWrite}
	cl := &end{in: m2c, out: c2m, closed: closed, once: once, stall: st, side: "client"}
	sv := &end{in: m2s, out: s2m, closed: closed, once: once, side: "server"}
	// man in the middle: messages alternate client -> server (odd), server -> client (even)
	go func() {
		n := 0
		for {
			var f []byte
			n++
			src, dst := c2m, m2s
			if n%2 == 0 {
				src, dst = s2m, m2c
			}
			select {
			case f = <-src:
			case <-closed:
				return
			}
			if stallMsg != 0 && n >= stallMsg {
				<-closed // silent peer: nothing is delivered any more
				return
			}
			if d, ok := devs[n]; ok {
				f = tamper(n, d, f, rng)
			}
			select {
			case dst <- f:
			case <-closed:
				return
			}
		}
	}()
	dc := tr.Int(cs["dc"])
	if dc == 0 {
		dc = 2
	}
	type sres struct {
		r   exchange.ServerExchangeResult
		err error
	}
	sch := make(chan sres, 1)
	sctx, scancel := context.WithCancel(context.Background())
	defer scancel()
	go func() {
		ex := exchange.NewExchanger(sv, dc).WithRand(rand.New(rand.NewSource(rng.Int63()))).WithTimeout(30 * time.Second).Server(exchange.PrivateKey{RSA: trusted})
		if rngDev != "" || tr.Str(cs["prime"]) == "group14" {
			ex = ex.VerifWithRNG(badRNG{dev: rngDev, prime: tr.Str(cs["prime"]), r: rng})
		}
		r, err := ex.Run(sctx)
		if err != nil {
			// a failed server drops the connection
			sv.Close()
		}
		sch <- sres{r, err}
	}()
	ctx := context.Background()
	var cancel context.CancelFunc = func() {}
	if ctxDeadline > 0 {
		ctx, cancel = context.WithTimeout(ctx, ctxDeadline)
	}
	defer cancel()
	ce := exchange.NewExchanger(cl, dc).WithRand(rand.New(rand.NewSource(rng.Int63()))).WithTimeout(timeout)
	if tr.Str(cs["mode"]) == "temp" {
		ce = ce.WithTempMode(3600)
	}
	type cres struct {
		r   exchange.ClientExchangeResult
		err error
	}
	cch := make(chan cres, 1)
	start := time.Now()
	go func() {
		r, err := ce.Client([]exchange.PublicKey{{RSA: &trusted.PublicKey}}).Run(ctx)
		cch <- cres{r, err}
	}()
	var o outcome
	var c cres
	select {
	case c = <-cch:
		o.elapsedMs = int(time.Since(start) / time.Millisecond)
	case <-time.After(timeout + 4*time.Second):
		o.client = "stuck"
		o.elapsedMs = int(time.Since(start) / time.Millisecond)
		cl.Close()
		c = <-cch
	}
	if o.client == "" {
		if c.err == nil {
			o.client = "done"
		} else {
			o.client = "fail"
			o.cerr = c.err.Error()
			if len(o.cerr) > 120 {
				o.cerr = o.cerr[:120]
			}
		}
	}
	cl.Close()
	scancel()
	s := <-sch
	if s.err == nil {
		o.server = "done"
	} else {
		o.server = "fail"
	}
	if c.err == nil && s.err == nil {
		o.sameKey = c.r.AuthKey.Value == s.r.Key.Value && c.r.AuthKey.ID == s.r.Key.ID
		o.sameSalt = c.r.ServerSalt == s.r.ServerSalt
	}
	if c.err == nil {
		o.nonzero = !c.r.AuthKey.Zero()
	}
	return o
}

// protoErrOnce makes the first Recv fail with the transport error code -404 (auth key not found).
type protoErrOnce struct {
	*end
	mu   sync.Mutex
	done bool
}

func (p *protoErrOnce) Recv(ctx context.Context, b *bin.Buffer) error {
	p.mu.Lock()
	first := !p.done
	p.done = true
	p.mu.Unlock()
	if first {
		return &codec.ProtocolErr{Code: codec.CodeAuthKeyNotFound}
	}
	return p.end.Recv(ctx, b)
}

type nopHandler struct{}

func (nopHandler) OnMessage(*bin.Buffer) error      { return nil }
func (nopHandler) OnSession(mtproto.Session) error { return nil }

// runConn runs a real mtproto.Conn whose connect (or key regeneration) performs the key exchange against the in-tree
// server flow; the peer goes silent at message `step` of exchange number `exch` (PFS: 1 = permanent, 2 = temporary key).
func runConn(cs tr.M, rng *rand.Rand) (returned bool, elapsedMs int, errs string) {
	setup()
	T := time.Duration(tr.Int(cs["timeout_ms"])) * time.Millisecond
	step := tr.Int(cs["step"])
	exch := tr.Int(cs["exch"])
	stallAt := (exch-1)*6 + step
	closed := make(chan struct{})
	once := &sync.Once{}
	c2m, m2c := make(chan []byte, 8), make(chan []byte, 8)
	s2m, m2s := make(chan []byte, 8), make(chan []byte, 8)
	cl := &end{in: m2c, out: c2m, closed: closed, once: once, side: "client"}
	sv := &end{in: m2s, out: s2m, closed: closed, once: once, side: "server"}
	go func() {
		n := 0
		for {
			n++
			src, dst := c2m, m2s
			if n%2 == 0 {
				src, dst = s2m, m2c
			}
			var f []byte
			select {
			case f = <-src:
			case <-closed:
				return
			}
			if n >= stallAt {
				<-closed
				return
			}
			select {
			case dst <- f:
			case <-closed:
				return
			}
		}
	}()
	sctx, scancel := context.WithCancel(context.Background())
	defer scancel()
	go func() {
		for i := 0; i < 2; i++ {
			ex := exchange.NewExchanger(sv, 2).WithRand(rand.New(rand.NewSource(rng.Int63()))).WithTimeout(30 * time.Second).Server(exchange.PrivateKey{RSA: trusted})
			if _, err := ex.Run(sctx); err != nil {
				return
			}
		}
	}()
	opt := mtproto.Options{DC: 2, PublicKeys: []exchange.PublicKey{{RSA: &trusted.PublicKey}}, Handler: nopHandler{},
		Random: rand.New(rand.NewSource(rng.Int63())), ExchangeTimeout: T, DialTimeout: 60 * time.Second,
		EnablePFS: tr.Bool(cs["pfs"]), PingInterval: time.Hour, CompressThreshold: -1}
	var conn transport.Conn = cl
	if tr.Bool(cs["regen"]) {
		var k crypto.Key
		rng.Read(k[:])
		opt.Key = k.WithID()
		conn = &protoErrOnce{end: cl}
	}
	c := mtproto.New(func(ctx context.Context) (transport.Conn, error) { return conn, nil }, opt)
	done := make(chan error, 1)
	start := time.Now()
	go func() {
		done <- c.Run(context.Background(), func(ctx context.Context) error { <-ctx.Done(); return ctx.Err() })
	}()
	select {
	case err := <-done:
		e := ""
		if err != nil {
			e = err.Error()
			if len(e) > 160 {
				e = e[len(e)-160:]
			}
		}
		cl.Close()
		return true, int(time.Since(start) / time.Millisecond), e
	case <-time.After(T + 4*time.Second):
		cl.Close()
		<-done
		return false, int(time.Since(start) / time.Millisecond), ""
	}
}

func main() {
	in := flag.String("in", "", "cases ndjson")
	outp := flag.String("out", "", "results ndjson")
	seed := flag.Int64("seed", 1, "seed")
	reps := flag.Int("reps", 1, "random runs per strategy")
	flag.Parse()
	cases := tr.ReadCases(*in)
	out := tr.NewW(*outp)
	defer out.Close()
	rng := rand.New(rand.NewSource(*seed))
	for i, cs := range cases {
		for r := 0; r < *reps; r++ {
			var o outcome
			if tr.Str(cs["kind"]) == "connstall" {
				ret, ms, e := runConn(cs, rng)
				out.Emit(tr.M{"case": i, "rep": r, "got": tr.M{"returned": ret, "failed": ret && e != "", "within_margin": ret && ms <= tr.Int(cs["timeout_ms"])+3000, "elapsed_ms": ms, "err": e}})
				continue
			}
			if tr.Str(cs["kind"]) == "stall" {
				T := time.Duration(tr.Int(cs["timeout_ms"])) * time.Millisecond
				var dl time.Duration
				if v := tr.Int(cs["ctx_deadline_ms"]); v > 0 {
					dl = time.Duration(v) * time.Millisecond
				}
				step := tr.Int(cs["step"]) // 1..6: 1,3,5 client writes; 2,4,6 client reads
				sm, sw := 0, 0
				if step%2 == 0 {
					sm = step
				} else {
					sw = (step + 1) / 2
				}
				o = runOnce(cs, rng, T, sm, sw, dl)
				bound := tr.Int(cs["timeout_ms"])
				if dl > 0 && int(dl/time.Millisecond) < bound {
					bound = int(dl / time.Millisecond)
				}
				out.Emit(tr.M{"case": i, "rep": r, "got": tr.M{"returned": o.client != "stuck", "failed": o.client == "fail",
					"within_margin": o.client != "stuck" && o.elapsedMs <= bound+3000, "elapsed_ms": o.elapsedMs, "err": o.cerr}})
				continue
			}
			o = runOnce(cs, rng, 20*time.Second, 0, 0, 0) // generous: CPU-bound parameter checks on a loaded machine
			got := tr.M{"client": o.client, "server": o.server, "elapsed_ms": o.elapsedMs}
			if o.client == "done" {
				got["same_key"] = o.sameKey
				got["same_salt"] = o.sameSalt
				got["key_nonzero"] = o.nonzero
			} else {
				got["err"] = o.cerr
			}
			out.Emit(tr.M{"case": i, "rep": r, "got": got})
		}
	}
	fmt.Fprintf(os.Stderr, "exchdrv: %d cases x %d\n", len(cases), *reps)
}
