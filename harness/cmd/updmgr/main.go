// updmgr drives the real telegram/updates internalState / channelState bodies
// through TLC-generated behaviours of UpdatesMgr.tla.  The Run loops are parked
// (channel workers at the verifhook gate, the main loop is never started) and
// the scheduler thread calls the loop bodies in the order the behaviour says.
// It records handler calls, storage writes, difference answers and too-long
// callbacks for the judge (UpdatesProp.tla) and the projected client state
// after every body for the fidelity comparison.  It contains no oracle.
package main

import (
	"context"
	"flag"
	"fmt"
	"os"
	"sync"

	"github.com/gotd/td/telegram/updates"
	"github.com/gotd/td/tg"
	"github.com/gotd/td/verifhook"

	"verifharness/internal/tr"
)

const (
	selfID = int64(777)
	chanID = int64(4242)
)

// ---------------------------------------------------------------- server log

type world struct {
	log           []string
	produced      int
	slice         int
	chanLim       int
	useSeq        bool
	tooLongAt     int
	chanTooLongAt int
	diffLimit     int
}

func isC(k string) bool  { return k == "M" || k == "O" || k == "A" }
func isQ(k string) bool  { return k == "Q" || k == "E" }
func isCh(k string) bool { return k == "CM" || k == "CO" }
func isCR(k string) bool { return k == "CR" }

func (w *world) pos(i int, f func(string) bool) int {
	n := 0
	for j := 1; j <= i; j++ {
		if f(w.log[j-1]) {
			n++
		}
	}
	return n
}
func (w *world) cpos(i int) int  { return w.pos(i, isC) }
func (w *world) qpos(i int) int  { return w.pos(i, isQ) }
func (w *world) chpos(i int) int { return w.pos(i, isCh) }
func (w *world) seqno(i int) int {
	if !w.useSeq {
		return 0
	}
	return w.pos(i, func(k string) bool { return (isC(k) && k != "A") || isQ(k) })
}

func (w *world) diffLim() int {
	if w.diffLimit > 0 {
		return w.diffLimit
	}
	return 100
}

func (w *world) msg(i int) *tg.Message {
	return &tg.Message{ID: i, PeerID: &tg.PeerChat{ChatID: 10}, Message: "m"}
}
func (w *world) chmsg(i int) *tg.Message {
	return &tg.Message{ID: i, PeerID: &tg.PeerChannel{ChannelID: chanID}, Message: "c"}
}

// upd builds the real update object of log entry i (1-based).
func (w *world) upd(i int) tg.UpdateClass {
	switch w.log[i-1] {
	case "M":
		return &tg.UpdateNewMessage{Message: w.msg(i), Pts: w.cpos(i), PtsCount: 1}
	case "O":
		return &tg.UpdateDeleteMessages{Messages: []int{i}, Pts: w.cpos(i), PtsCount: 1}
	case "Q":
		return &tg.UpdateBotStopped{UserID: int64(i), Qts: w.qpos(i)}
	case "E":
		return &tg.UpdateNewEncryptedMessage{Message: &tg.EncryptedMessage{RandomID: int64(i), ChatID: 5}, Qts: w.qpos(i)}
	case "CM":
		return &tg.UpdateNewChannelMessage{Message: w.chmsg(i), Pts: w.chpos(i), PtsCount: 1}
	case "CO":
		return &tg.UpdateDeleteChannelMessages{ChannelID: chanID, Messages: []int{i}, Pts: w.chpos(i), PtsCount: 1}
	case "CR":
		return &tg.UpdateReadChannelInbox{ChannelID: chanID, MaxID: i, Pts: w.chpos(i)}
	}
	panic("bad kind " + w.log[i-1])
}

// idOf maps a delivered update back to its log index (0 = unknown).
func idOf(u tg.UpdateClass) int {
	switch x := u.(type) {
	case *tg.UpdateNewMessage:
		if m, ok := x.Message.(*tg.Message); ok {
			return m.ID
		}
	case *tg.UpdateDeleteMessages:
		if len(x.Messages) == 1 {
			return x.Messages[0]
		}
	case *tg.UpdateBotStopped:
		return int(x.UserID)
	case *tg.UpdateNewEncryptedMessage:
		if m, ok := x.Message.(*tg.EncryptedMessage); ok {
			return int(m.RandomID)
		}
	case *tg.UpdateNewChannelMessage:
		if m, ok := x.Message.(*tg.Message); ok {
			return m.ID
		}
	case *tg.UpdateDeleteChannelMessages:
		if len(x.Messages) == 1 {
			return x.Messages[0]
		}
	case *tg.UpdateReadChannelInbox:
		return x.MaxID
	}
	return 0
}

// ---------------------------------------------------------------- recorder

type run struct {
	w   *world
	out *tr.W

	mu      sync.Mutex
	nev     int  // observable events so far in this behaviour
	fuse    int  // crash after this many events (-1 = never)
	dead    bool // crashed: effects are discarded
	inDiff  int  // depth of difference bodies (via = diff)
	st      updates.State
	chPts   map[int64]int
	hashes  map[int64]int64
	evs     []tr.M // events of the current body (for crash replays)
	tooLong map[string]bool
}

// event records an observable event unless the process "crashed" before it.
func (r *run) event(m tr.M) bool {
	if r.dead {
		return false
	}
	if r.fuse >= 0 && r.nev >= r.fuse {
		r.dead = true
		return false
	}
	r.nev++
	r.out.Emit(m)
	return true
}

// handler
func (r *run) Handle(ctx context.Context, u tg.UpdatesClass) error {
	r.mu.Lock()
	defer r.mu.Unlock()
	us, ok := u.(*tg.Updates)
	if !ok {
		r.event(tr.M{"ev": "h", "ids": []int{}, "via": "other", "type": fmt.Sprintf("%T", u)})
		return nil
	}
	ids := make([]int, 0, len(us.Updates))
	for _, x := range us.Updates {
		ids = append(ids, idOf(x))
	}
	via := "push"
	if r.inDiff > 0 {
		via = "diff"
	}
	r.event(tr.M{"ev": "h", "ids": ids, "via": via})
	return nil
}

// storage
func (r *run) GetState(ctx context.Context, userID int64) (updates.State, bool, error) {
	r.mu.Lock()
	defer r.mu.Unlock()
	return r.st, true, nil
}
func (r *run) SetState(ctx context.Context, userID int64, s updates.State) error {
	r.mu.Lock()
	defer r.mu.Unlock()
	if r.event(tr.M{"ev": "ss", "pts": s.Pts, "qts": s.Qts, "seq": s.Seq}) {
		r.st = s
	}
	return nil
}
func (r *run) set(k string, v int, f func()) error {
	r.mu.Lock()
	defer r.mu.Unlock()
	if r.event(tr.M{"ev": "s", "k": k, "v": v}) {
		f()
	}
	return nil
}
func (r *run) SetPts(ctx context.Context, userID int64, v int) error {
	return r.set("pts", v, func() { r.st.Pts = v })
}
func (r *run) SetQts(ctx context.Context, userID int64, v int) error {
	return r.set("qts", v, func() { r.st.Qts = v })
}
func (r *run) SetDate(ctx context.Context, userID int64, v int) error {
	r.mu.Lock()
	defer r.mu.Unlock()
	if !r.dead {
		r.st.Date = v
	}
	return nil
}
func (r *run) SetSeq(ctx context.Context, userID int64, v int) error {
	return r.set("seq", v, func() { r.st.Seq = v })
}
func (r *run) SetDateSeq(ctx context.Context, userID int64, d, v int) error {
	return r.set("seq", v, func() { r.st.Seq = v; r.st.Date = d })
}
func (r *run) GetChannelPts(ctx context.Context, userID, ch int64) (int, bool, error) {
	r.mu.Lock()
	defer r.mu.Unlock()
	v, ok := r.chPts[ch]
	return v, ok, nil
}
func (r *run) SetChannelPts(ctx context.Context, userID, ch int64, v int) error {
	return r.set("ch", v, func() { r.chPts[ch] = v })
}
func (r *run) ForEachChannels(ctx context.Context, userID int64, f func(ctx context.Context, ch int64, pts int) error) error {
	r.mu.Lock()
	m := map[int64]int{}
	for k, v := range r.chPts {
		m[k] = v
	}
	r.mu.Unlock()
	for k, v := range m {
		if err := f(ctx, k, v); err != nil {
			return err
		}
	}
	return nil
}

// access hasher: every channel is known
func (r *run) SetChannelAccessHash(ctx context.Context, userID, ch, h int64) error { return nil }
func (r *run) GetChannelAccessHash(ctx context.Context, userID, ch int64) (int64, bool, error) {
	return 99, true, nil
}

// API: the honest server over the produced prefix of the log
func (r *run) UpdatesGetState(ctx context.Context) (*tg.UpdatesState, error) {
	w := r.w
	return &tg.UpdatesState{Pts: w.cpos(w.produced), Qts: w.qpos(w.produced), Seq: w.seqno(w.produced)}, nil
}

func mx(a, b int) int {
	if a > b {
		return a
	}
	return b
}

func (r *run) UpdatesGetDifference(ctx context.Context, req *tg.UpdatesGetDifferenceRequest) (tg.UpdatesDifferenceClass, error) {
	w := r.w
	var p []int
	for i := 1; i <= w.produced; i++ {
		k := w.log[i-1]
		if (isC(k) && w.cpos(i) > req.Pts) || (isQ(k) && w.qpos(i) > req.Qts) {
			p = append(p, i)
		}
	}
	r.mu.Lock()
	defer r.mu.Unlock()
	if len(p) == 0 {
		r.event(tr.M{"ev": "diff", "k": "c", "pts": req.Pts, "qts": req.Qts, "empty": true})
		return &tg.UpdatesDifferenceEmpty{Date: 0, Seq: w.seqno(w.produced)}, nil
	}
	npc := 0
	for _, i := range p {
		if isC(w.log[i-1]) {
			npc++
		}
	}
	if w.tooLongAt > 0 && npc >= w.tooLongAt {
		r.event(tr.M{"ev": "diff", "k": "c", "pts": w.cpos(w.produced), "qts": req.Qts, "empty": false})
		return &tg.UpdatesDifferenceTooLong{Pts: w.cpos(w.produced)}, nil
	}
	s := p
	final := true
	if w.slice > 0 && len(p) > w.slice {
		s = p[:w.slice]
		final = false
	}
	x := w.produced
	if !final {
		x = s[len(s)-1]
	}
	state := tg.UpdatesState{Pts: mx(req.Pts, w.cpos(x)), Qts: mx(req.Qts, w.qpos(x)), Seq: w.seqno(x)}
	var msgs []tg.MessageClass
	var enc []tg.EncryptedMessageClass
	var oth []tg.UpdateClass
	for _, i := range s {
		switch w.log[i-1] {
		case "M":
			msgs = append(msgs, w.msg(i))
		case "E":
			enc = append(enc, &tg.EncryptedMessage{RandomID: int64(i), ChatID: 5})
		case "A":
			// a pts increment with nothing to deliver: only the state of the difference reflects it
		default:
			oth = append(oth, w.upd(i))
		}
	}
	r.event(tr.M{"ev": "diff", "k": "c", "pts": state.Pts, "qts": state.Qts, "empty": false})
	if final {
		return &tg.UpdatesDifference{NewMessages: msgs, NewEncryptedMessages: enc, OtherUpdates: oth, State: state}, nil
	}
	return &tg.UpdatesDifferenceSlice{NewMessages: msgs, NewEncryptedMessages: enc, OtherUpdates: oth, IntermediateState: state}, nil
}

func (r *run) UpdatesGetChannelDifference(ctx context.Context, req *tg.UpdatesGetChannelDifferenceRequest) (tg.UpdatesChannelDifferenceClass, error) {
	w := r.w
	var p []int
	for i := 1; i <= w.produced; i++ {
		if (isCh(w.log[i-1]) || isCR(w.log[i-1])) && w.chpos(i) > req.Pts {
			p = append(p, i)
		}
	}
	r.mu.Lock()
	defer r.mu.Unlock()
	if len(p) == 0 {
		r.event(tr.M{"ev": "diff", "k": "ch", "pts": req.Pts, "qts": 0, "empty": true})
		return &tg.UpdatesChannelDifferenceEmpty{Final: true, Pts: req.Pts}, nil
	}
	if w.chanTooLongAt > 0 && len(p) >= w.chanTooLongAt {
		np := w.chpos(w.produced)
		r.event(tr.M{"ev": "diff", "k": "ch", "pts": np, "qts": 0, "empty": false})
		d := &tg.Dialog{Peer: &tg.PeerChannel{ChannelID: chanID}}
		d.SetPts(np)
		return &tg.UpdatesChannelDifferenceTooLong{Final: true, Dialog: d}, nil
	}
	s := p
	final := true
	if w.chanLim > 0 && len(p) > w.chanLim {
		s = p[:w.chanLim]
		final = false
	}
	np := w.chpos(s[len(s)-1])
	var msgs []tg.MessageClass
	var oth []tg.UpdateClass
	crs := []int{}
	for _, i := range s {
		if w.log[i-1] == "CM" {
			msgs = append(msgs, w.chmsg(i))
		} else {
			oth = append(oth, w.upd(i))
			if isCR(w.log[i-1]) {
				crs = append(crs, i)
			}
		}
	}
	r.event(tr.M{"ev": "diff", "k": "ch", "pts": np, "qts": 0, "empty": false, "cr": crs})
	return &tg.UpdatesChannelDifference{Final: final, Pts: np, NewMessages: msgs, OtherUpdates: oth}, nil
}

// ---------------------------------------------------------------- client under test

type client struct {
	r     *run
	vs    *updates.VerifState
	chSub bool // channel worker has not run its subscribe difference yet
}

func (r *run) newClient() *client {
	ch := map[int64]struct {
		Pts        int
		AccessHash int64
	}{}
	for k, v := range r.chPts {
		ch[k] = struct {
			Pts        int
			AccessHash int64
		}{v, 99}
	}
	vs := updates.NewVerifState(updates.VerifStateConfig{
		State: r.st, Channels: ch, API: r, Handler: r, Storage: r, Hasher: r, SelfID: selfID, DiffLimit: r.w.diffLim(),
		OnTooLong: func(id int64) {
			r.mu.Lock()
			r.event(tr.M{"ev": "tl", "k": "ch", "upto": r.w.produced}) // what the server holds when the gap is reported
			r.mu.Unlock()
		},
		OnCommonTooLong: func(int64) {
			r.mu.Lock()
			r.event(tr.M{"ev": "tl", "k": "c", "upto": r.w.produced})
			r.mu.Unlock()
		},
	})
	return &client{r: r, vs: vs, chSub: len(ch) > 0}
}

func (c *client) tracked() bool { return len(c.vs.Channels()) > 0 }

func (c *client) diffBody(f func() error) {
	c.r.mu.Lock()
	c.r.inDiff++
	c.r.mu.Unlock()
	_ = f()
	c.r.mu.Lock()
	c.r.inDiff--
	c.r.mu.Unlock()
}

// diffBodyIf runs a channel step; handler calls made by a difference inside it (updateChannelTooLong) are
// marked by the API mock, see inAPIDiff.
func (c *client) diffBodyIf(f func() error) { _ = f() }

func (c *client) noteTracked(before bool) {
	if !before && c.tracked() {
		c.chSub = true
	}
}

func (c *client) push(ids []int, seq int) {
	var us []tg.UpdateClass
	for _, i := range ids {
		us = append(us, c.r.w.upd(i))
	}
	b := c.tracked()
	_ = c.vs.HandleUpdates(&tg.Updates{Updates: us, Seq: seq})
	c.noteTracked(b)
}
func (c *client) recover() { c.diffBody(func() error { return c.vs.GetDifference("verif") }) }
func (c *client) chanDiff() {
	c.chSub = false
	c.diffBody(func() error { return c.vs.ChanGetDifference(chanID, "verif") })
}
func (c *client) chanStep() bool {
	var ok bool
	c.diffBodyIf(func() error { var err error; ok, err = c.vs.ChanStep(chanID); return err })
	return ok
}
func (c *client) internal() bool {
	b := c.tracked()
	ok, _ := c.vs.MainStepInternal()
	c.noteTracked(b)
	return ok
}
func (c *client) chanRound() {
	for c.internal() {
	}
	if !c.tracked() {
		return
	}
	if c.chSub {
		c.chanDiff()
	}
	for c.chanStep() {
	}
	c.chanDiff()
}
func (c *client) quiesce() {
	c.recover()
	c.chanRound()
	c.chanRound()
	c.chanRound()
}

func boxJSON(v updates.VerifBoxView) tr.M {
	g := []any{}
	for _, x := range v.Gaps {
		g = append(g, tr.M{"from": x[0], "to": x[1]})
	}
	p := []any{}
	for _, x := range v.Pending {
		p = append(p, tr.M{"s": x[0] - x[1], "e": x[0]})
	}
	return tr.M{"st": v.State, "gaps": g, "pend": p}
}

func (c *client) post() tr.M {
	r := c.r
	r.mu.Lock()
	chs := -1
	if v, ok := r.chPts[chanID]; ok {
		chs = v
	}
	stor := tr.M{"pts": r.st.Pts, "qts": r.st.Qts, "seq": r.st.Seq, "ch": chs}
	r.mu.Unlock()
	m := tr.M{"ev": "post", "pts": boxJSON(c.vs.Pts()), "qts": boxJSON(c.vs.Qts()), "seq": boxJSON(c.vs.Seq()),
		"tracked": c.tracked(), "iq": c.vs.InternalQueueLen(), "stor": stor, "chq": 0,
		"ch": tr.M{"st": 0, "gaps": []any{}, "pend": []any{}}}
	if v, ok := c.vs.ChanPts(chanID); ok {
		m["ch"] = boxJSON(v)
		m["chq"] = c.vs.ChanQueueLen(chanID)
	}
	return m
}

// ---------------------------------------------------------------- behaviours

type action struct {
	a     string
	i, j  int
	ws    bool
	crash int
}

func parseHist(c tr.M) []action {
	var as []action
	for _, x := range tr.List(c["hist"]) {
		m := tr.Map(x)
		a := action{a: tr.Str(m["a"]), i: tr.Int(m["i"]), ws: tr.Bool(m["ws"]), crash: -1}
		if v, ok := m["crash"]; ok {
			a.crash = tr.Int(v)
		}
		if v, ok := m["j"]; ok {
			a.j = tr.Int(v)
		}
		as = append(as, a)
	}
	return as
}

func (c *client) step(a action) {
	switch a.a {
	case "produce":
		c.r.w.produced++
	case "push":
		sq := 0
		if a.ws {
			sq = c.r.w.seqno(a.i)
		}
		c.push([]int{a.i}, sq)
	case "push2":
		c.push([]int{a.i, a.j}, 0)
	case "cancel":
		c.vs.Close()
	case "affected":
		_ = c.vs.HandleAffected(0, c.r.w.cpos(a.i), 1)
	case "chantl":
		u := &tg.UpdateChannelTooLong{ChannelID: chanID}
		if a.ws {
			u.SetPts(a.i)
		}
		b := c.tracked()
		_ = c.vs.HandleUpdates(&tg.Updates{Updates: []tg.UpdateClass{u}})
		c.noteTracked(b)
	case "recover":
		c.recover()
	case "chansub", "chandiff":
		c.chanDiff()
	case "chanstep":
		c.chanStep()
	case "internal":
		c.internal()
	case "quiesce":
		c.quiesce()
	default:
		panic("bad action " + a.a)
	}
}

// play runs one behaviour.  crashAt >= 0: the process dies after that many observable events
// (counted over the whole behaviour), is restarted from storage, runs the startup difference
// and the quiescing recovery.  Returns the number of observable events of a full run.
func play(out *tr.W, trace int, cs tr.M, crashAt int, final bool, opts world) int {
	var logk []string
	for _, k := range tr.List(cs["log"]) {
		logk = append(logk, tr.Str(k))
	}
	w := &world{log: logk, slice: opts.slice, chanLim: opts.chanLim, useSeq: opts.useSeq}
	if v, ok := cs["slice"]; ok {
		w.slice = tr.Int(v)
	}
	if v, ok := cs["chanlim"]; ok {
		w.chanLim = tr.Int(v)
	}
	if v, ok := cs["useseq"]; ok {
		w.useSeq = tr.Bool(v)
	}
	w.tooLongAt, w.chanTooLongAt, w.diffLimit = tr.Int(cs["toolong"]), tr.Int(cs["chantoolong"]), tr.Int(cs["difflimit"])
	tracked0 := tr.Bool(cs["tracked0"])
	r := &run{w: w, out: out, fuse: -1, chPts: map[int64]int{}}
	if tracked0 {
		r.chPts[chanID] = 0
	}
	out.Emit(tr.M{"ev": "reset", "trace": trace, "log": logk, "tracked0": tracked0, "crashAt": crashAt})
	c := r.newClient()
	restart := func() {
		c.vs.Close()
		r.mu.Lock()
		r.dead = false
		r.fuse = -1
		r.inDiff = 0
		r.mu.Unlock()
		out.Emit(tr.M{"ev": "restart"})
		c = r.newClient()
		c.recover() // getDifference("startup")
	}
	as := parseHist(cs)
	crashed := false
	for k, a := range as {
		out.Emit(tr.M{"ev": "act", "k": k, "a": a.a, "i": a.i, "j": a.j, "ws": a.ws, "crash": a.crash})
		r.fuse = -1
		if a.crash >= 0 {
			r.fuse = r.nev + a.crash
		} else if crashAt >= 0 {
			r.fuse = crashAt
		}
		if a.a == "restart" {
			restart()
			crashed = true
			out.Emit(c.post())
			continue
		}
		c.step(a)
		if r.dead || a.crash >= 0 {
			restart()
			crashed = true
			if crashAt >= 0 {
				break
			}
		}
		r.fuse = -1
		out.Emit(c.post())
	}
	if crashAt >= 0 || final {
		if crashAt >= 0 && !crashed {
			// crash point after the last event of the behaviour
			restart()
		}
		w.produced = len(w.log)
		out.Emit(tr.M{"ev": "act", "k": len(as), "a": "final-quiesce"})
		c.quiesce()
		out.Emit(tr.M{"ev": "quiesced", "produced": w.produced, "tracked": c.tracked()})
	} else if len(as) > 0 && as[len(as)-1].a == "quiesce" {
		out.Emit(tr.M{"ev": "quiesced", "produced": w.produced, "tracked": c.tracked()})
	}
	c.vs.Close()
	return r.nev
}

func main() {
	in := flag.String("in", "", "behaviours ndjson")
	outp := flag.String("out", "", "trace ndjson")
	crashall := flag.Bool("crashall", false, "additionally replay every behaviour with a crash at every observable event")
	final := flag.Bool("final", false, "finish every behaviour with production of the whole log and a quiescing recovery")
	slice := flag.Int("slice", 0, "common difference slice size")
	chanlim := flag.Int("chanlim", 0, "channel difference limit")
	useseq := flag.Bool("useseq", false, "seq numbers")
	flag.Parse()
	// park channel workers forever: the scheduler thread runs their bodies itself
	park := make(chan struct{})
	verifhook.Install(func(point uint16, key int64) {
		if point == verifhook.UpdChanRun {
			<-park
		}
	})
	cases := tr.ReadCases(*in)
	out := tr.NewW(*outp)
	defer out.Close()
	opts := world{slice: *slice, chanLim: *chanlim, useSeq: *useseq}
	trace := 0
	idx := []tr.M{}
	for ci, cs := range cases {
		n := play(out, trace, cs, -1, *final, opts)
		idx = append(idx, tr.M{"trace": trace, "case": ci, "crashAt": -1})
		trace++
		if *crashall {
			for k := 0; k <= n; k++ {
				play(out, trace, cs, k, true, opts)
				idx = append(idx, tr.M{"trace": trace, "case": ci, "crashAt": k})
				trace++
			}
		}
	}
	fmt.Fprintf(os.Stderr, "updmgr: %d behaviours, %d traces\n", len(cases), trace)
}
