// sessdrv exercises the real session.FileStorage / session.Loader:
//   init  <path>        write the OLD session (setup, not crash tested)
//   store <path>        save the NEW session through Loader.Save -> FileStorage.StoreSession (crash tested under strace)
//   load  <path>        load with the real Loader and classify the result
//   images <dir> <in> <out>  materialise post-crash images of the session file predicted by the model and load each
package main

import (
	"bytes"
	"context"
	"encoding/json"
	"fmt"
	"os"
	"path/filepath"
	"runtime"

	"github.com/gotd/td/session"

	"verifharness/internal/tr"
)

func init() { runtime.LockOSThread() }

func data(which string) *session.Data {
	d := &session.Data{DC: 2, Addr: "149.154.167.50:443", AuthKey: bytes.Repeat([]byte{0x11}, 256), AuthKeyID: bytes.Repeat([]byte{0x22}, 8), Salt: 1111}
	if which == "new" && os.Getenv("SESS_SCENARIO") == "same" {
		// same encoded length as the old session: only contents differ
		d.AuthKey = bytes.Repeat([]byte{0x55}, 256)
		d.AuthKeyID = bytes.Repeat([]byte{0x66}, 8)
		d.Salt = 3333
		d.Addr = "149.154.167.99:443"
		return d
	}
	if which == "new" {
		d.AuthKey = bytes.Repeat([]byte{0x33}, 256)
		d.AuthKeyID = bytes.Repeat([]byte{0x44}, 8)
		d.Salt = 2222
		d.Addr = "149.154.167.51:443:a-longer-address-so-that-lengths-differ"
	}
	return d
}

func raw(which string) []byte {
	var buf []byte
	l := session.Loader{Storage: captureStorage{&buf}}
	if err := l.Save(context.Background(), data(which)); err != nil {
		panic(err)
	}
	return buf
}

type captureStorage struct{ b *[]byte }

func (c captureStorage) LoadSession(context.Context) ([]byte, error) { return *c.b, nil }
func (c captureStorage) StoreSession(_ context.Context, d []byte) error {
	*c.b = append([]byte(nil), d...)
	return nil
}

func classify(path string) tr.M {
	l := session.Loader{Storage: &session.FileStorage{Path: path}}
	d, err := l.Load(context.Background())
	if err != nil {
		return tr.M{"ok": false, "which": "error", "err": err.Error()}
	}
	for _, w := range []string{"old", "new"} {
		a, _ := json.Marshal(d)
		b, _ := json.Marshal(data(w))
		if bytes.Equal(a, b) {
			return tr.M{"ok": true, "which": w}
		}
	}
	return tr.M{"ok": false, "which": "other"}
}

func main() {
	switch os.Args[1] {
	case "lens":
		fmt.Printf("{\"old\":%d,\"new\":%d}\n", len(raw("old")), len(raw("new")))
	case "init":
		if err := os.WriteFile(os.Args[2], raw("old"), 0o600); err != nil {
			panic(err)
		}
	case "store":
		l := session.Loader{Storage: &session.FileStorage{Path: os.Args[2]}}
		if err := l.Save(context.Background(), data("new")); err != nil {
			fmt.Println("store error:", err)
			os.Exit(4)
		}
	case "load":
		b, _ := json.Marshal(classify(os.Args[2]))
		fmt.Println(string(b))
	case "images":
		dir := os.Args[2]
		cases := tr.ReadCases(os.Args[3])
		w := tr.NewW(os.Args[4])
		defer w.Close()
		oldb, newb := raw("old"), raw("new")
		for i, c := range cases {
			p := filepath.Join(dir, fmt.Sprintf("img%d.json", i))
			img := tr.Map(c["img"])
			var content []byte
			exists := true
			switch tr.Str(img["kind"]) {
			case "old":
				content = oldb
			case "new":
				content = newb
			case "empty":
				content = nil
			case "part": // first n bytes of the new data
				content = newb[:tr.Int(img["n"])]
			case "oldpart": // new data written over the old file without truncation: new[:n] + old[n:]
				n := tr.Int(img["n"])
				content = append(append([]byte(nil), newb[:n]...), oldb[minInt(n, len(oldb)):]...)
			case "absent":
				exists = false
			}
			_ = os.Remove(p)
			if exists {
				if err := os.WriteFile(p, content, 0o600); err != nil {
					panic(err)
				}
			}
			w.Emit(tr.M{"case": i, "got": classify(p)})
			_ = os.Remove(p)
		}
	}
}

func minInt(a, b int) int {
	if a < b {
		return a
	}
	return b
}
