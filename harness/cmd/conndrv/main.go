// conndrv drives a real mtproto.Conn (public API only) against a scripted
// server living in the harness: fake transport, fake clock, real crypto on both
// sides.  A case is a list of steps generated from the TLA+ models (Ping.tla,
// Salts.tla, Dispatch.tla, MsgRecv classes); after every step the driver waits
// for quiescence of all mtproto / rpc goroutines, decrypts what the client wrote
// and records everything observable.  It contains no oracle.
package main

import (
	"context"
	"crypto/aes"
	"flag"
	"fmt"
	"math/rand"
	"os"
	"runtime"
	"strconv"
	"strings"
	"sync"
	"time"

	"github.com/go-faster/errors"
	"github.com/gotd/ige"
	"github.com/gotd/neo"

	"github.com/gotd/td/bin"
	"github.com/gotd/td/crypto"
	"github.com/gotd/td/mt"
	"github.com/gotd/td/mtproto"
	"github.com/gotd/td/proto"
	"github.com/gotd/td/rpc"
	"github.com/gotd/td/tgerr"
	"github.com/gotd/td/transport"

	"verifharness/internal/sched"
	"verifharness/internal/tr"
)

// ---------------------------------------------------------------- fake transport

type pipe struct {
	mu     sync.Mutex
	sent   [][]byte      // frames written by the client, not yet drained
	in     chan []byte   // frames for the client
	closed chan struct{} // closed by Close
	once   sync.Once
	block  bool // Send blocks until ctx ends (stalled link)
	// flushfail: the frame leaves (the server sees it), Send then waits for wrel and reports a write error
	flushfail bool
	wrel      chan struct{}
}

func (p *pipe) Send(ctx context.Context, b *bin.Buffer) error {
	select {
	case <-p.closed:
		return errors.New("closed")
	default:
	}
	if p.block {
		select {
		case <-ctx.Done():
			return ctx.Err()
		case <-p.closed:
			return errors.New("closed")
		}
	}
	p.mu.Lock()
	p.sent = append(p.sent, append([]byte(nil), b.Buf...))
	ff, rel := p.flushfail, p.wrel
	p.mu.Unlock()
	if ff {
		select {
		case <-rel:
		case <-p.closed:
		}
		return errors.New("write failed after flush")
	}
	return nil
}

func (p *pipe) Recv(ctx context.Context, b *bin.Buffer) error {
	select {
	case f := <-p.in:
		b.ResetTo(f)
		return nil
	case <-ctx.Done():
		return ctx.Err()
	case <-p.closed:
		return errors.New("closed")
	}
}

func (p *pipe) Close() error { p.once.Do(func() { close(p.closed) }); return nil }

var _ transport.Conn = (*pipe)(nil)

// ---------------------------------------------------------------- request / result objects

const (
	reqTypeID = 0x7e51f001 // harness request: [id][k:int32]
	resTypeID = 0x7e51f002 // harness result:  [id][tag:int32]
	updTypeID = 0x7e51f003 // harness "update" (unknown to mtproto): [id][tag:int32]
)

type reqObj struct{ k int }

func (r *reqObj) Encode(b *bin.Buffer) error { b.PutID(reqTypeID); b.PutInt32(int32(r.k)); return nil }
func (r *reqObj) TypeID() uint32             { return reqTypeID }

type resObj struct{ tag int }

func (r *resObj) Encode(b *bin.Buffer) error {
	b.PutID(resTypeID)
	b.PutInt32(int32(r.tag))
	return nil
}

type outObj struct {
	mu   sync.Mutex
	tags []int
}

func (o *outObj) Decode(b *bin.Buffer) error {
	if err := b.ConsumeID(resTypeID); err != nil {
		return err
	}
	v, err := b.Int32()
	if err != nil {
		return err
	}
	o.mu.Lock()
	o.tags = append(o.tags, int(v))
	o.mu.Unlock()
	return nil
}

// ---------------------------------------------------------------- world

// gatedSrc is the connection's message id source with a scheduling point: a call made by a scripted
// caller allocates its id and then waits until the script lets it return (op "relid").
type gatedSrc struct {
	inner *proto.MessageIDGen
	w     *world
}

func (g *gatedSrc) New(t proto.MessageType) int64 {
	id := g.inner.New(t)
	g.w.mu.Lock()
	k, known := g.w.gidK[curGID()]
	var ch chan struct{}
	if g.w.gateID && known {
		ch = make(chan struct{})
		g.w.idParked[k] = ch
	}
	g.w.mu.Unlock()
	if ch != nil {
		<-ch
	}
	return id
}

func curGID() uint64 {
	var b [64]byte
	n := runtime.Stack(b[:], false)
	f := strings.Fields(string(b[:n]))
	if len(f) < 2 {
		return 0
	}
	id, _ := strconv.ParseUint(f[1], 10, 64)
	return id
}

func (w *world) relID(k int) bool {
	w.mu.Lock()
	ch := w.idParked[k]
	delete(w.idParked, k)
	w.mu.Unlock()
	if ch != nil {
		close(ch)
	}
	return ch != nil
}

type world struct {
	gateID   bool
	gidK     map[uint64]int
	idParked map[int]chan struct{}
	out      *tr.W
	sc       *sched.S
	clk      *neo.Time
	t0       time.Time
	p        *pipe
	conn     *mtproto.Conn
	key      crypto.AuthKey
	other    crypto.AuthKey
	srv      crypto.Cipher
	rng      *rand.Rand

	mu        sync.Mutex
	session   int64
	reqMsgID  map[int]int64 // invoke k -> msg id of its request (first seen frame)
	pingID    map[int]int64 // ping k -> ping id
	pingMsg   map[int]int64 // ping k -> msg id of the ping request
	pendingK  []int         // invokes started, request frame not yet seen
	pendingP  []int         // pings started, ping frame not yet seen
	cancels   map[string]context.CancelFunc
	srvMsgIDs []int64 // msg ids of server messages sent so far (for replays)
	lastSrvID int64
	runDone   chan error
	runCancel context.CancelFunc
	ended     bool
	nSrv      int
	spamStop  chan struct{}
}

type handler struct{ w *world }

func (h handler) OnMessage(b *bin.Buffer) error {
	id, _ := b.PeekID()
	tag := -1
	if id == updTypeID {
		_ = b.ConsumeID(updTypeID)
		v, _ := b.Int32()
		tag = int(v)
	}
	h.w.out.Emit(tr.M{"ev": "onmessage", "tag": tag, "type": fmt.Sprintf("%x", id)})
	return nil
}
func (h handler) OnSession(s mtproto.Session) error {
	h.w.out.Emit(tr.M{"ev": "onsession", "salt": s.Salt})
	return nil
}

type zeroRand struct{ r *rand.Rand }

func (z zeroRand) Read(p []byte) (int, error) { return z.r.Read(p) }

func newWorld(out *tr.W, cs tr.M, seed int64) *world {
	w := &world{out: out, rng: rand.New(rand.NewSource(seed)), reqMsgID: map[int]int64{}, pingID: map[int]int64{}, pingMsg: map[int]int64{},
		cancels: map[string]context.CancelFunc{}, runDone: make(chan error, 1), gidK: map[uint64]int{}, idParked: map[int]chan struct{}{}}
	w.t0 = time.Date(2026, 1, 1, 0, 0, 0, 0, time.UTC)
	w.clk = neo.NewTime(w.t0)
	var kb crypto.Key
	w.rng.Read(kb[:])
	w.key = kb.WithID()
	w.rng.Read(kb[:])
	w.other = kb.WithID()
	w.srv = crypto.NewServerCipher(zeroRand{w.rng})
	w.p = &pipe{in: make(chan []byte, 64), closed: make(chan struct{})}
	w.sc = sched.New()
	w.sc.PassThrough = true
	w.sc.Watch = []string{"github.com/gotd/td/mtproto.", "github.com/gotd/td/rpc.", "main.(*world).client"}
	opt := mtproto.Options{
		DC: 2, Random: zeroRand{rand.New(rand.NewSource(seed + 1))}, Handler: handler{w},
		Clock: w.clk, Key: w.key, Salt: int64(tr.Int(cs["salt0"])),
		PingInterval:      time.Duration(intOr(cs["pingInterval"], 60000)) * time.Millisecond,
		PingTimeout:       time.Duration(intOr(cs["pingTimeout"], 15000)) * time.Millisecond,
		RetryInterval:     time.Duration(intOr(cs["retryInterval"], 5000)) * time.Millisecond,
		MaxRetries:        intOr(cs["maxRetries"], 5),
		AckInterval:       time.Duration(intOr(cs["ackInterval"], 15000)) * time.Millisecond,
		AckBatchSize:      intOr(cs["ackBatch"], 20),
		SaltFetchInterval: time.Hour, CompressThreshold: -1,
		RequestTimeout: func(uint32) time.Duration { return 15 * time.Second },
	}
	opt.MessageID = &gatedSrc{inner: proto.NewMessageIDGen(w.clk.Now), w: w}
	w.conn = mtproto.New(func(ctx context.Context) (transport.Conn, error) { return w.p, nil }, opt)
	ctx, cancel := context.WithCancel(context.Background())
	w.runCancel = cancel
	started := make(chan struct{})
	go func() {
		w.runDone <- w.conn.Run(ctx, func(ctx context.Context) error {
			close(started)
			<-ctx.Done()
			return ctx.Err()
		})
	}()
	select {
	case <-started:
	case err := <-w.runDone:
		panic(fmt.Sprint("Run ended at start: ", err))
	}
	return w
}

func intOr(v any, d int) int {
	if v == nil {
		return d
	}
	return tr.Int(v)
}

func errClass(err error) string {
	switch {
	case err == nil:
		return "ok"
	case strings.Contains(err.Error(), "pong missed"):
		return "pongmissed"
	case strings.Contains(err.Error(), "write failed after flush"):
		return "wfail"
	case errors.Is(err, context.Canceled), errors.Is(err, context.DeadlineExceeded):
		return "ctx"
	case errors.Is(err, rpc.ErrEngineClosed):
		return "closed"
	}
	var re *tgerr.Error
	if errors.As(err, &re) {
		return fmt.Sprintf("rpc:%d:%s", re.Code, re.Message)
	}
	var rl *rpc.RetryLimitReachedErr
	if errors.As(err, &rl) {
		return "retrylimit"
	}
	s := err.Error()
	switch {
	case strings.Contains(s, "pong missed"):
		return "pongmissed"
	case strings.Contains(s, "incorrect server salt"):
		return "badsalt"
	case strings.Contains(s, "msg_id too"), strings.Contains(s, "msg_seqno"), strings.Contains(s, "bad msg error"):
		return "badmsg"
	}
	return "other:" + s
}

// ---------------------------------------------------------------- client operations

func (w *world) clientInvoke(k int) {
	ctx, cancel := context.WithCancel(context.Background())
	w.mu.Lock()
	w.cancels[fmt.Sprint("i", k)] = cancel
	w.pendingK = append(w.pendingK, k)
	w.mu.Unlock()
	w.out.Emit(tr.M{"ev": "invoke", "k": k})
	go func() {
		w.mu.Lock()
		w.gidK[curGID()] = k
		w.mu.Unlock()
		var o outObj
		err := w.conn.Invoke(ctx, &reqObj{k}, &o)
		o.mu.Lock()
		tags := append([]int{}, o.tags...)
		o.mu.Unlock()
		w.out.Emit(tr.M{"ev": "done", "k": k, "res": errClass(err), "tags": tags})
	}()
}

func (w *world) clientPing(k int) {
	ctx, cancel := context.WithCancel(context.Background())
	w.mu.Lock()
	w.cancels[fmt.Sprint("p", k)] = cancel
	w.pendingP = append(w.pendingP, k)
	w.mu.Unlock()
	w.p.mu.Lock()
	wf := w.p.flushfail
	w.p.mu.Unlock()
	if wf {
		w.out.Emit(tr.M{"ev": "ping", "k": k, "wfail": true})
	} else {
		w.out.Emit(tr.M{"ev": "ping", "k": k})
	}
	go func() {
		w.mu.Lock()
		w.gidK[curGID()] = k
		w.mu.Unlock()
		err := w.conn.Ping(ctx)
		w.out.Emit(tr.M{"ev": "pingdone", "k": k, "res": errClass(err)})
	}()
}

// ---------------------------------------------------------------- draining client frames

func (w *world) drain() {
	w.p.mu.Lock()
	frames := w.p.sent
	w.p.sent = nil
	w.p.mu.Unlock()
	spam := 0
	for _, f := range frames {
		d, err := w.srv.DecryptFromBuffer(w.key, &bin.Buffer{Buf: f})
		if err != nil {
			w.out.Emit(tr.M{"ev": "sent", "type": "undecryptable", "err": err.Error()})
			continue
		}
		w.mu.Lock()
		w.session = d.SessionID
		w.mu.Unlock()
		body := &bin.Buffer{Buf: d.Data()}
		id, _ := body.PeekID()
		now := w.clk.Now()
		m := tr.M{"ev": "sent", "salt": d.Salt, "seqno": int(d.SeqNo), "idsec": int(d.MessageID >> 32),
			"idfrac": int((d.MessageID & 0xffffffff) >> 2), "idlow": int(d.MessageID & 3),
			"now": int(now.Unix() - w.t0.Unix()), "pad": len(d.MessageDataWithPadding) - int(d.MessageDataLen),
			"len16": len(f) % 16}
		switch id {
		case reqTypeID:
			_ = body.ConsumeID(reqTypeID)
			v, _ := body.Int32()
			k := int(v)
			m["type"] = "req"
			m["k"] = k
			w.mu.Lock()
			if _, ok := w.reqMsgID[k]; !ok {
				w.reqMsgID[k] = d.MessageID
				m["first"] = true
			} else {
				m["first"] = false
				m["sameid"] = w.reqMsgID[k] == d.MessageID
			}
			w.mu.Unlock()
		case mt.PingRequestTypeID:
			var p mt.PingRequest
			_ = p.Decode(body)
			m["type"] = "ping"
			w.mu.Lock()
			if len(w.pendingP) == 0 {
				// frame of the free-running writer: keep a sample
				spam++
				if spam > 20 {
					w.mu.Unlock()
					continue
				}
			}
			if len(w.pendingP) > 0 {
				k := w.pendingP[0]
				w.pendingP = w.pendingP[1:]
				w.pingID[k] = p.PingID
				w.pingMsg[k] = d.MessageID
				m["k"] = k
			}
			w.mu.Unlock()
		case mt.PingDelayDisconnectRequestTypeID:
			var p mt.PingDelayDisconnectRequest
			_ = p.Decode(body)
			m["type"] = "loopping"
			m["delay"] = p.DisconnectDelay
			w.mu.Lock()
			w.pingID[0] = p.PingID // k = 0 is the keep-alive loop's latest ping
			w.pingMsg[0] = d.MessageID
			w.mu.Unlock()
		case mt.MsgsAckTypeID:
			var a mt.MsgsAck
			_ = a.Decode(body)
			m["type"] = "ack"
			m["n"] = len(a.MsgIDs)
		case mt.GetFutureSaltsRequestTypeID:
			m["type"] = "getsalts"
		case mt.RPCDropAnswerRequestTypeID:
			var dr mt.RPCDropAnswerRequest
			_ = dr.Decode(body)
			m["type"] = "drop"
			w.mu.Lock()
			for k, id := range w.reqMsgID {
				if id == dr.ReqMsgID {
					m["k"] = k
				}
			}
			w.mu.Unlock()
		default:
			m["type"] = fmt.Sprintf("%x", id)
		}
		w.out.Emit(m)
	}
}

// ---------------------------------------------------------------- server messages

func (w *world) newSrvID(response bool, offsetSec int) int64 {
	now := w.clk.Now().Add(time.Duration(offsetSec) * time.Second)
	typ := proto.MessageFromServer
	if response {
		typ = proto.MessageServerResponse
	}
	id := int64(proto.NewMessageID(now, typ))
	if offsetSec == 0 && id <= w.lastSrvID {
		id = w.lastSrvID + 4
	}
	if offsetSec == 0 {
		w.lastSrvID = id
	}
	return id
}

func (w *world) msgIDOf(m tr.M) int64 {
	if v, ok := m["of"]; ok {
		k := tr.Int(v)
		w.mu.Lock()
		defer w.mu.Unlock()
		if id, ok := w.reqMsgID[k]; ok {
			return id
		}
		return 0x0123456789abcd00 + int64(k)*4 // never sent: foreign id
	}
	return 0x0123456789ab0000 + int64(tr.Int(m["foreign"]))*4
}

// encodeMsg builds the body of a server message.
func (w *world) encodeMsg(m tr.M, b *bin.Buffer) {
	switch tr.Str(m["t"]) {
	case "pong":
		var pid, mid int64
		w.mu.Lock()
		if v, ok := m["of"]; ok {
			pid = w.pingID[tr.Int(v)]
			mid = w.pingMsg[tr.Int(v)]
			if pid == 0 {
				pid = 0x7777000000 + int64(tr.Int(v)) // ping not sent yet: an id nobody waits for
			}
		} else {
			pid = 0x5555000000 + int64(tr.Int(m["foreign"]))
		}
		if v, ok := m["msgof"]; ok {
			mid = w.pingMsg[tr.Int(v)] // foreign ping id, but answering the ping request of k
		}
		w.mu.Unlock()
		p := mt.Pong{MsgID: mid, PingID: pid}
		_ = p.Encode(b)
	case "result":
		r := proto.Result{RequestMessageID: w.msgIDOf(m)}
		rb := &bin.Buffer{}
		w.encodeMsg(tr.Map(m["body"]), rb)
		r.Result = rb.Buf
		_ = r.Encode(b)
	case "res":
		_ = (&resObj{tag: tr.Int(m["tag"])}).Encode(b)
	case "rpcerr":
		e := mt.RPCError{ErrorCode: tr.Int(m["code"]), ErrorMessage: tr.Str(m["msg"])}
		_ = e.Encode(b)
	case "ack":
		var ids []int64
		for _, k := range tr.List(m["ks"]) {
			ids = append(ids, w.msgIDOf(tr.M{"of": k}))
		}
		a := mt.MsgsAck{MsgIDs: ids}
		_ = a.Encode(b)
	case "badsalt":
		x := mt.BadServerSalt{BadMsgID: w.msgIDOf(m), ErrorCode: 48, NewServerSalt: int64(tr.Int(m["salt"]))}
		_ = x.Encode(b)
	case "badmsg":
		x := mt.BadMsgNotification{BadMsgID: w.msgIDOf(m), ErrorCode: tr.Int(m["code"])}
		_ = x.Encode(b)
	case "salts":
		base := int(w.clk.Now().Unix())
		fs := mt.FutureSalts{Now: base}
		for _, s := range tr.List(m["list"]) {
			l := tr.List(s)
			fs.Salts = append(fs.Salts, mt.FutureSalt{ValidSince: base + tr.Int(l[0]), ValidUntil: base + tr.Int(l[1]), Salt: int64(tr.Int(l[2]))})
		}
		_ = fs.Encode(b)
	case "session":
		x := mt.NewSessionCreated{FirstMsgID: w.lastSrvID, UniqueID: 5, ServerSalt: int64(tr.Int(m["salt"]))}
		_ = x.Encode(b)
	case "update":
		b.PutID(updTypeID)
		b.PutInt32(int32(tr.Int(m["tag"])))
	case "detailed":
		x := mt.MsgDetailedInfo{MsgID: 4, AnswerMsgID: 8, Bytes: 12}
		_ = x.Encode(b)
	case "container":
		var c proto.MessageContainer
		for _, s := range tr.List(m["msgs"]) {
			ib := &bin.Buffer{}
			w.encodeMsg(tr.Map(s), ib)
			c.Messages = append(c.Messages, proto.Message{ID: w.newSrvID(true, 0), SeqNo: 1, Bytes: ib.Len(), Body: ib.Buf})
		}
		_ = c.Encode(b)
	case "gzip":
		ib := &bin.Buffer{}
		w.encodeMsg(tr.Map(m["body"]), ib)
		g := proto.GZIP{Data: ib.Buf}
		_ = g.Encode(b)
	case "raw":
		for _, x := range tr.List(m["words"]) {
			b.PutUint32(uint32(tr.Int(x)))
		}
	case "trunc":
		ib := &bin.Buffer{}
		w.encodeMsg(tr.Map(m["body"]), ib)
		n := tr.Int(m["keep"])
		if n > ib.Len() {
			n = ib.Len()
		}
		b.Put(ib.Buf[:n])
	default:
		panic("bad server message kind " + tr.Str(m["t"]))
	}
}

// serverSend encrypts and delivers one server message; hdr selects header variants.
func (w *world) serverSend(m tr.M, hdr tr.M) {
	body := &bin.Buffer{}
	w.encodeMsg(m, body)
	for body.Len()%4 != 0 {
		// payload bytes are arbitrary, the message around them is a valid one (length divisible by 4)
		body.Put([]byte{0})
	}
	w.mu.Lock()
	sess := w.session
	w.mu.Unlock()
	key := w.key
	offset := 0
	response := tr.Str(m["t"]) == "result" || tr.Str(m["t"]) == "pong"
	id := int64(0)
	if hdr != nil {
		if tr.Str(hdr["session"]) == "other" {
			sess ^= 0x5a5a
		}
		if tr.Str(hdr["key"]) == "other" {
			key = w.other
		}
		offset = tr.Int(hdr["offset"])
		if v, ok := hdr["replay"]; ok {
			n := tr.Int(v)
			if n >= 0 && n < len(w.srvMsgIDs) {
				id = w.srvMsgIDs[n]
			}
		}
	}
	if id == 0 {
		id = w.newSrvID(response, offset)
		if hdr != nil {
			if v, ok := hdr["idtype"]; ok {
				id = (id &^ 3) | int64(tr.Int(v))
			}
		}
	}
	w.srvMsgIDs = append(w.srvMsgIDs, id)
	seq := int32(2*w.nSrv + 1)
	if tr.Str(m["t"]) == "ack" || (hdr != nil && tr.Bool(hdr["noack"])) {
		seq = int32(2 * w.nSrv)
	} else {
		w.nSrv++
	}
	out := &bin.Buffer{}
	data := crypto.EncryptedMessageData{SessionID: sess, Salt: 1, MessageID: id, SeqNo: seq,
		MessageDataLen: int32(body.Len()), MessageDataWithPadding: body.Buf}
	pad := ""
	if hdr != nil {
		pad = tr.Str(hdr["pad"])
	}
	if pad == "" {
		data.MessageDataWithPadding = nil
		data.Message = rawEnc(body.Buf)
		if err := w.srv.Encrypt(key, data, out); err != nil {
			panic(err)
		}
	} else {
		padn := encryptWithPadding(w.rng, key, data, body.Buf, pad, out)
		h2 := tr.M{}
		for k, v := range hdr {
			h2[k] = v
		}
		h2["padn"] = padn // the padding length actually used (block alignment may enlarge the requested class)
		h2["unaligned"] = pad == "unaligned"
		hdr = h2
	}
	ev := tr.M{"ev": "srv", "msg": m, "n": len(w.srvMsgIDs) - 1}
	if hdr != nil {
		ev["hdr"] = hdr
	}
	w.out.Emit(ev)
	w.p.in <- out.Buf
}

type rawEnc []byte

func (r rawEnc) Encode(b *bin.Buffer) error { b.Put(r); return nil }

// encryptWithPadding builds a server->client ciphertext with a chosen padding class
// ("p0","p4","p8" < 12, "p1024", "p1040" > 1024, "unaligned" = data length % 4 != 0) from the public
// crypto primitives (the library's own Encrypt always pads 12..1024).
func encryptWithPadding(rng *rand.Rand, key crypto.AuthKey, d crypto.EncryptedMessageData, body []byte, pad string, out *bin.Buffer) int {
	n := map[string]int{"p0": 0, "p4": 4, "p8": 8, "p12": 12, "p1024": 1024, "p1040": 1040, "unaligned": 16}[pad]
	plain := &bin.Buffer{}
	plain.PutLong(d.Salt)
	plain.PutLong(d.SessionID)
	plain.PutLong(d.MessageID)
	plain.PutInt32(d.SeqNo)
	dl := len(body)
	if pad == "unaligned" {
		dl = len(body) - 2
	}
	plain.PutInt32(int32(dl))
	plain.Put(body)
	// total must be a multiple of 16: add the chosen padding rounded up to the class boundary
	total := plain.Len() + n
	for total%16 != 0 {
		total++
		n++
	}
	p := make([]byte, n)
	rng.Read(p)
	plain.Put(p)
	msgKey := crypto.MessageKey(key.Value, plain.Buf, crypto.Server)
	k, iv := crypto.Keys(key.Value, msgKey, crypto.Server)
	blk, err := aes.NewCipher(k[:])
	if err != nil {
		panic(err)
	}
	enc := make([]byte, len(plain.Buf))
	ige.EncryptBlocks(blk, iv[:], enc, plain.Buf)
	out.Put(key.ID[:])
	out.Put(msgKey[:])
	out.Put(enc)
	return n
}

// ---------------------------------------------------------------- steps

func (w *world) checkRun() {
	if w.ended {
		return
	}
	select {
	case err := <-w.runDone:
		w.ended = true
		w.out.Emit(tr.M{"ev": "runend", "res": errClass(err)})
	default:
	}
}

func (w *world) step(s tr.M) {
	switch tr.Str(s["op"]) {
	case "invoke":
		w.clientInvoke(tr.Int(s["k"]))
	case "ping":
		w.clientPing(tr.Int(s["k"]))
	case "cancel":
		w.mu.Lock()
		c := w.cancels[tr.Str(s["who"])+fmt.Sprint(tr.Int(s["k"]))]
		w.mu.Unlock()
		w.out.Emit(tr.M{"ev": "cancel", "who": tr.Str(s["who"]), "k": tr.Int(s["k"])})
		if c != nil {
			c()
		}
	case "wfail":
		w.p.mu.Lock()
		if tr.Bool(s["on"]) {
			w.p.flushfail, w.p.wrel = true, make(chan struct{})
		} else if w.p.flushfail {
			w.p.flushfail = false
			close(w.p.wrel)
		}
		w.p.mu.Unlock()
	case "gateid":
		w.mu.Lock()
		w.gateID = tr.Bool(s["on"])
		w.mu.Unlock()
	case "relid":
		w.relID(tr.Int(s["k"]))
	case "tick":
		w.out.Emit(tr.M{"ev": "tick", "ms": tr.Int(s["ms"])})
		w.clk.Travel(time.Duration(tr.Int(s["ms"])) * time.Millisecond)
	case "srv":
		var hdr tr.M
		if s["hdr"] != nil {
			hdr = tr.Map(s["hdr"])
		}
		w.serverSend(tr.Map(s["msg"]), hdr)
	case "wait":
		// real time (context.WithTimeout inside the library cannot be faked)
		deadline := time.Now().Add(time.Duration(tr.Int(s["ms"])) * time.Millisecond)
		for time.Now().Before(deadline) && !w.ended {
			time.Sleep(5 * time.Millisecond)
			w.checkRun()
		}
		w.out.Emit(tr.M{"ev": "waited", "ms": tr.Int(s["ms"])})
	case "spam":
		// free-running writer: service messages written concurrently with whatever the next steps trigger
		if tr.Bool(s["on"]) {
			stop := make(chan struct{})
			w.spamStop = stop
			go func() {
				for n := 0; n < 400; n++ {
					select {
					case <-stop:
						return
					default:
					}
					ctx, cancel := context.WithCancel(context.Background())
					cancel()
					_ = w.conn.Ping(ctx)
				}
			}()
			return // no settle: the writer never blocks
		}
		if w.spamStop != nil {
			close(w.spamStop)
			w.spamStop = nil
		}
	case "stall":
		w.p.block = tr.Bool(s["on"])
	case "end":
		w.out.Emit(tr.M{"ev": "end"})
		w.runCancel()
		select {
		case err := <-w.runDone:
			if !w.ended {
				w.ended = true
				w.out.Emit(tr.M{"ev": "runend", "res": errClass(err)})
			}
		case <-time.After(10 * time.Second):
			w.out.Emit(tr.M{"ev": "runend", "res": "stuck"})
		}
	default:
		panic("bad op " + tr.Str(s["op"]))
	}
	w.sc.Settle()
	w.drain()
	w.checkRun()
}

func main() {
	in := flag.String("in", "", "cases ndjson")
	outp := flag.String("out", "", "trace ndjson")
	seed := flag.Int64("seed", 1, "seed")
	flag.Parse()
	cases := tr.ReadCases(*in)
	out := tr.NewW(*outp)
	defer out.Close()
	for i, cs := range cases {
		out.Emit(tr.M{"ev": "reset", "trace": i, "cfg": cs["cfg"], "salt0": tr.Int(cs["salt0"])})
		w := newWorld(out, cs, *seed+int64(i)*7919)
		w.sc.Settle()
		// preamble: the scripted server learns the session id from the first client frame
		w.step(tr.M{"op": "ping", "k": 8})
		w.step(tr.M{"op": "srv", "msg": tr.M{"t": "pong", "of": 8}})
		for _, s := range tr.List(cs["steps"]) {
			w.step(tr.Map(s))
		}
		// calls still waiting inside the id source return now, oldest first
		w.mu.Lock()
		w.gateID = false
		w.mu.Unlock()
		for more := true; more; {
			more = false
			for k := 0; k < 16; k++ {
				if w.relID(k) {
					more = true
					w.sc.Settle()
					w.drain()
				}
			}
		}
		if !w.ended {
			w.step(tr.M{"op": "end"})
		}
		// release whatever is still waiting
		w.mu.Lock()
		cs2 := map[string]context.CancelFunc{}
		for k, c := range w.cancels {
			cs2[k] = c
		}
		w.mu.Unlock()
		for k, c := range cs2 {
			n := 0
			fmt.Sscan(k[1:], &n)
			out.Emit(tr.M{"ev": "cancel", "who": k[:1], "k": n, "cleanup": true})
			c()
		}
		w.sc.Settle()
		w.sc.Close()
		out.Emit(tr.M{"ev": "endcase"})
	}
	fmt.Fprintf(os.Stderr, "conndrv: %d cases\n", len(cases))
}
