// msgid drives the real proto.MessageIDGen with TLC-generated clock behaviours.
package main

import (
	"flag"
	"fmt"
	"os"
	"time"

	"github.com/gotd/td/proto"

	"verifharness/internal/tr"
)

const base = int64(1700000000) // seconds

func rel(id int64) int { return int(((id>>32)-base)*1e9 + int64(int32(id))) }

func main() {
	mode := flag.String("mode", "edges", "edges|paths")
	in := flag.String("in", "", "cases")
	out := flag.String("out", "", "trace")
	flag.Parse()
	cases := tr.ReadCases(*in)
	w := tr.NewW(*out)
	defer w.Close()
	if *mode == "idbuf" {
		for k, c := range cases {
			n := tr.Int(c["n"])
			buf := proto.NewMessageIDBuf(n)
			w.Emit(tr.M{"ev": "reset", "trace": k, "n": n})
			for _, x := range tr.List(c["hist"]) {
				id := tr.Int(x)
				// scale the abstract id to a realistic server message id (time<<32 | frac, type 1)
				real := (base+int64(id))<<32 | int64(id*4+1)
				w.Emit(tr.M{"ev": "consume", "id": id, "accepted": buf.Consume(real)})
			}
		}
		fmt.Fprintf(os.Stderr, "msgid idbuf: %d cases, %d events\n", len(cases), w.N)
		return
	}
	for k, c := range cases {
		var now int64 // relative nanos
		gen := proto.NewMessageIDGen(func() time.Time { return time.Unix(base, now) })
		w.Emit(tr.M{"ev": "reset", "trace": k})
		maxclk := 0
		emit := func() {
			id := gen.New(proto.MessageFromClient)
			if int(now) > maxclk {
				maxclk = int(now)
			}
			w.Emit(tr.M{"ev": "new", "clk": int(now), "maxclk": maxclk, "t": rel(id), "mod4": int(id % 4), "id": fmt.Sprint(id)})
		}
		switch *mode {
		case "edges":
			from := tr.Map(c["from"])
			g, clk := tr.Int(from["g"]), tr.Int(from["clk"])
			if g > 0 { // bring the generator to nano = g
				now = int64(g)
				maxclk = g
				emit()
			}
			_ = clk
			now = int64(clk + tr.Int(c["d"]))
			emit()
		case "paths":
			now = int64(tr.Int(c["start"]))
			for _, s := range tr.List(c["hist"]) {
				now += int64(tr.Int(tr.Map(s)["d"]))
				emit()
			}
		}
	}
	fmt.Fprintf(os.Stderr, "msgid: %d cases, %d events\n", len(cases), w.N)
}
