// dialdrv replays TLC behaviours of spec/Dial/Dial.tla on the real dcs.Plain resolver
// with a gated fake dialer, and runs free-running races; records events for DialProp.
package main

import (
	"bytes"
	"context"
	"errors"
	"flag"
	"fmt"
	"math/rand"
	"net"
	"os"
	"strconv"
	"strings"
	"sync"
	"sync/atomic"
	"time"

	"github.com/gotd/td/bin"
	"github.com/gotd/td/telegram/dcs"
	"github.com/gotd/td/tg"
	"github.com/gotd/td/verifhook"

	"verifharness/internal/sched"
	"verifharness/internal/tr"
)

type rec struct {
	mu sync.Mutex
	w  *tr.W
}

func (r *rec) emit(m tr.M) { r.mu.Lock(); r.w.Emit(m); r.mu.Unlock() }

// marker is the payload the driver sends over the returned connection to identify it;
// transport handshake headers written by concurrently completing (late) dials never contain it.
var marker = []byte("VERIFMRK")

type fakeNet struct {
	k       int
	w       *world
	r       *rec
	once    sync.Once
	closed  chan struct{}
	sawMark atomic.Bool
}

func (f *fakeNet) Read(p []byte) (int, error) { <-f.closed; return 0, net.ErrClosed }
func (f *fakeNet) Write(p []byte) (int, error) {
	if bytes.Contains(p, marker) {
		f.sawMark.Store(true)
	}
	return len(p), nil
}
func (f *fakeNet) Close() error {
	f.once.Do(func() { f.r.emit(tr.M{"ev": "Closed", "k": f.k}); close(f.closed) })
	return nil
}
func (f *fakeNet) LocalAddr() net.Addr                { return &net.TCPAddr{} }
func (f *fakeNet) RemoteAddr() net.Addr               { return &net.TCPAddr{} }
func (f *fakeNet) SetDeadline(t time.Time) error      { return nil }
func (f *fakeNet) SetReadDeadline(t time.Time) error  { return nil }
func (f *fakeNet) SetWriteDeadline(t time.Time) error { return nil }

type outcome struct{ ok bool }

type world struct {
	mmu   sync.Mutex
	fakes []*fakeNet
	r     *rec
	k     int
	gates []chan outcome
	ret   chan struct{}
}

func newWorld(r *rec, k int) *world {
	w := &world{r: r, k: k, ret: make(chan struct{}, 16)}
	for i := 0; i < k; i++ {
		w.gates = append(w.gates, make(chan outcome, 1))
	}
	return w
}

// dial ignores ctx on purpose: a dial may succeed although the race was already decided (late success).
func (w *world) dial(ctx context.Context, network, addr string) (net.Conn, error) {
	host, _, _ := net.SplitHostPort(addr)
	k, _ := strconv.Atoi(host[strings.LastIndex(host, ".")+1:])
	defer func() { w.ret <- struct{}{} }()
	o := <-w.gates[k-1]
	if !o.ok {
		w.r.emit(tr.M{"ev": "DialFailed", "k": k})
		return nil, errors.New("dial failed " + addr)
	}
	f := &fakeNet{k: k, w: w, r: w.r, closed: make(chan struct{})}
	w.mmu.Lock()
	w.fakes = append(w.fakes, f)
	w.mmu.Unlock()
	w.r.emit(tr.M{"ev": "Established", "k": k})
	return f, nil
}

func (w *world) list() dcs.List {
	var l dcs.List
	for i := 1; i <= w.k; i++ {
		l.Options = append(l.Options, tg.DCOption{ID: 2, IPAddress: fmt.Sprintf("10.0.0.%d", i), Port: 443})
	}
	return l
}

func (w *world) primary(ctx context.Context) {
	res := dcs.Plain(dcs.PlainOptions{Dial: w.dial})
	c, err := res.Primary(ctx, 2, w.list())
	if err != nil {
		w.r.emit(tr.M{"ev": "Returned", "k": 0, "err": err.Error()})
		return
	}
	// identify the returned connection: the one fake that sees the marker payload
	sctx, scancel := context.WithTimeout(context.Background(), 30*time.Second)
	serr := c.Send(sctx, &bin.Buffer{Buf: append([]byte(nil), marker...)})
	scancel()
	var seen []int
	w.mmu.Lock()
	for _, f := range w.fakes {
		if f.sawMark.Load() {
			seen = append(seen, f.k)
		}
	}
	w.mmu.Unlock()
	if len(seen) != 1 {
		// the harness cannot tell which connection was returned: infrastructure failure, never a verdict
		fmt.Fprintf(os.Stderr, "dialdrv: cannot identify the returned connection (send err=%v, marker seen by %v)\n", serr, seen)
		os.Exit(3)
	}
	w.r.emit(tr.M{"ev": "Returned", "k": seen[0], "err": ""})
}

func replay(r *rec, trace int, c tr.M) {
	k := tr.Int(c["k"])
	s := sched.New()
	s.Watch = []string{"dcs.plain", "dialdrv"}
	defer s.Close()
	r.emit(tr.M{"ev": "reset", "trace": trace, "k": k})
	w := newWorld(r, k)
	ctx, cancel := context.WithCancel(context.Background())
	defer cancel()
	s.Go("main", func() { w.primary(ctx) })
	s.Settle()
	done := map[int]bool{}
	for _, st := range tr.List(c["hist"]) {
		a := tr.Map(st)
		switch tr.Str(a["a"]) {
		case "DialDone":
			kk := tr.Int(a["k"])
			if !done[kk] {
				done[kk] = true
				w.gates[kk-1] <- outcome{tr.Bool(a["ok"])}
			}
		case "MainSel":
			s.ReleaseIfAt("main", verifhook.DialBeforeSelect)
		case "Cancel":
			r.emit(tr.M{"ev": "Cancel"})
			cancel()
		case "GiveUp":
		}
		s.Settle()
	}
	// drain: finish main, then complete every remaining dial successfully (late successes)
	for s.Release("main") {
		s.Settle()
	}
	for kk := 1; kk <= k; kk++ {
		if !done[kk] {
			done[kk] = true
			w.gates[kk-1] <- outcome{true}
			s.Settle()
			for s.Release("main") {
				s.Settle()
			}
		}
	}
	if s.Alive("main") {
		r.emit(tr.M{"ev": "Cancel"})
		cancel()
		s.Settle()
		for s.Release("main") {
			s.Settle()
		}
	}
	s.Settle()
	r.emit(tr.M{"ev": "End"})
}

func free(r *rec, trace int, rng *rand.Rand) {
	k := 2 + rng.Intn(4)
	// free running: no gate parks; the scheduler is only used to detect quiescence of the dial goroutines
	s := sched.New()
	s.PassThrough = true
	s.Watch = []string{"dcs.plain"}
	defer s.Close()
	r.emit(tr.M{"ev": "reset", "trace": trace, "k": k})
	w := newWorld(r, k)
	ctx, cancel := context.WithCancel(context.Background())
	defer cancel()
	mainDone := make(chan struct{})
	go func() { w.primary(ctx); close(mainDone) }()
	order := rng.Perm(k)
	for _, i := range order {
		if rng.Intn(3) > 0 {
			time.Sleep(time.Duration(rng.Intn(60)) * time.Microsecond)
		}
		w.gates[i] <- outcome{rng.Intn(3) > 0}
		if rng.Intn(8) == 0 {
			r.emit(tr.M{"ev": "Cancel"})
			cancel()
		}
	}
	<-mainDone
	for i := 0; i < k; i++ {
		select {
		case <-w.ret:
		case <-time.After(60 * time.Second):
			fmt.Fprintln(os.Stderr, "dialdrv: a fake dial did not return")
			os.Exit(3)
		}
	}
	// the losing goroutines close their connections after the race is decided: wait until every
	// goroutine of dcs.plain has finished or is blocked for good (no wall-clock guess)
	s.Settle()
	r.emit(tr.M{"ev": "End"})
}

func main() {
	mode := flag.String("mode", "sched", "sched|free")
	in := flag.String("in", "", "behaviours")
	out := flag.String("out", "", "trace")
	n := flag.Int("n", 100, "free traces")
	seed := flag.Int64("seed", 1, "seed")
	flag.Parse()
	w := tr.NewW(*out)
	defer w.Close()
	r := &rec{w: w}
	if *mode == "sched" {
		cases := tr.ReadCases(*in)
		for k, c := range cases {
			replay(r, k, c)
		}
		fmt.Fprintf(os.Stderr, "dialdrv: %d behaviours, %d events\n", len(cases), w.N)
		return
	}
	rng := rand.New(rand.NewSource(*seed))
	for k := 0; k < *n; k++ {
		free(r, k, rng)
	}
}
