// rpcdrv replays TLC behaviours of spec/Rpc/Rpc.tla on the real rpc.Engine with
// the verifhook gate scheduler (mode sched), or runs seeded free-running stress
// (mode free), recording observable events for the RpcProp judge.
package main

import (
	"context"
	"errors"
	"flag"
	"fmt"
	"math/rand"
	"os"
	"strings"
	"sync"
	"time"

	"github.com/gotd/neo"

	"github.com/gotd/td/bin"
	"github.com/gotd/td/pool"
	"github.com/gotd/td/rpc"
	"github.com/gotd/td/verifhook"

	"verifharness/internal/sched"
	"verifharness/internal/tr"
)

var errRPC = errors.New("rpc error 400: TEST")
var errSend = errors.New("scripted send failure")

const retryInterval = time.Second

type rec struct {
	mu sync.Mutex
	w  *tr.W
}

func (r *rec) emit(m tr.M) {
	r.mu.Lock()
	r.w.Emit(m)
	r.mu.Unlock()
}

type input struct{ v int32 }

func (i input) Encode(b *bin.Buffer) error { b.PutInt32(i.v); return nil }

type output struct {
	r *rec
	i int
}

func (o *output) Decode(b *bin.Buffer) error {
	j, err := b.Int32()
	if err != nil {
		return err
	}
	o.r.emit(tr.M{"ev": "Write", "i": o.i, "j": int(j)})
	return nil
}

func msgID(i int) int64 { return int64(7000 + 4*i) }

var errCallerCause = errors.New("sibling task failed")

func class(err error, ctx context.Context) string {
	var rl *rpc.RetryLimitReachedErr
	switch {
	case err == nil:
		return "ok"
	case errors.Is(err, errRPC):
		return "rpcerr"
	case errors.Is(err, errSend):
		return "senderr"
	case errors.As(err, &rl):
		return "retrylimit"
	case errors.Is(err, rpc.ErrEngineClosed):
		return "closedRetryable"
	case strings.Contains(err.Error(), "engine forcibly closed"):
		return "closedAcked"
	case errors.Is(err, context.Canceled) || errors.Is(err, context.DeadlineExceeded):
		return "ctx"
	}
	return "other:" + err.Error()
}

func retryable(err error) bool {
	return errors.Is(err, pool.ErrConnDead) || errors.Is(err, rpc.ErrEngineClosed)
}

type world struct {
	r         *rec
	s         *sched.S
	e         *rpc.Engine
	clk       *neo.Time
	mu        sync.Mutex
	failNext  map[int]bool
	blockNext map[int]bool
	unblock   map[int]chan struct{}
	brk       map[int]chan struct{}
	ctxs      map[int]context.Context
	cancels   map[int]context.CancelFunc
	fcStart   bool
	gcStart   bool
	maxReq    int
	doWG      sync.WaitGroup
	doDone    map[int]bool
	ackN      int
}

func (w *world) isDone(i int) bool {
	w.mu.Lock()
	defer w.mu.Unlock()
	return w.doDone[i]
}

func newWorld(r *rec, s *sched.S, maxRetries, maxReq int) *world {
	w := &world{r: r, s: s, failNext: map[int]bool{}, blockNext: map[int]bool{}, unblock: map[int]chan struct{}{}, brk: map[int]chan struct{}{}, ctxs: map[int]context.Context{}, cancels: map[int]context.CancelFunc{}, doDone: map[int]bool{}, maxReq: maxReq}
	w.clk = neo.NewTime(time.Date(2026, 1, 1, 0, 0, 0, 0, time.UTC))
	w.e = rpc.New(func(ctx context.Context, id int64, seqNo int32, in bin.Encoder) error {
		i := int(id-7000) / 4
		w.mu.Lock()
		fail := w.failNext[i]
		w.failNext[i] = false
		block := w.blockNext[i]
		w.blockNext[i] = false
		var ub, brk chan struct{}
		if block {
			ub = make(chan struct{})
			brk = make(chan struct{})
			w.unblock[i] = ub
			w.brk[i] = brk
		}
		w.mu.Unlock()
		if fail {
			r.emit(tr.M{"ev": "SendFail", "i": i})
			return errSend
		}
		var b bin.Buffer
		_ = in.Encode(&b)
		body, _ := b.Int32()
		r.emit(tr.M{"ev": "Send", "i": i, "msgid": int(id), "seqno": int(seqNo), "body": int(body)})
		if block {
			// the write is stuck inside the transport until released or until its context ends
			select {
			case <-ub:
			case <-brk:
				// the connection broke under the stuck write
				r.emit(tr.M{"ev": "SendBroke", "i": i})
				return errSend
			case <-ctx.Done():
				r.emit(tr.M{"ev": "SendAbort", "i": i})
				return ctx.Err()
			}
		}
		r.emit(tr.M{"ev": "SendDone", "i": i})
		return nil
	}, rpc.Options{
		RetryInterval: retryInterval,
		MaxRetries:    maxRetries,
		Clock:         w.clk,
		DropHandler: func(req rpc.Request) error {
			r.emit(tr.M{"ev": "Drop", "i": int(req.MsgID-7000) / 4})
			return nil
		},
	})
	return w
}

func (w *world) startDo(i int) {
	// callers are cancelled in the two ways the standard library offers: plainly, or with a cause of their own
	// (errgroup, WithCancelCause); ctx.Err() is context.Canceled either way
	ctx, cancelCause := context.WithCancelCause(context.Background())
	cancel := func() { cancelCause(nil) }
	if i%2 == 0 {
		cancel = func() { cancelCause(errCallerCause) }
	}
	w.ctxs[i], w.cancels[i] = ctx, cancel
	w.r.emit(tr.M{"ev": "DoStart", "i": i})
	run := func() {
		err := w.e.Do(ctx, rpc.Request{MsgID: msgID(i), SeqNo: int32(2*i + 1), Input: input{int32(100 + i)}, Output: &output{w.r, i}})
		w.r.emit(tr.M{"ev": "DoReturn", "i": i, "err": class(err, ctx), "retryable": retryable(err)})
		w.mu.Lock()
		w.doDone[i] = true
		w.mu.Unlock()
		w.doWG.Done()
	}
	w.doWG.Add(1)
	if w.s != nil {
		w.s.Go(fmt.Sprintf("do%d", i), run)
	} else {
		go run()
	}
}

func (w *world) notifyResult(j, i int, k string) {
	w.r.emit(tr.M{"ev": "ResultCall", "j": j, "i": i, "k": k})
	run := func() {
		if k == "ok" {
			var b bin.Buffer
			b.PutInt32(int32(j))
			_ = w.e.NotifyResult(msgID(i), &b)
		} else {
			w.e.NotifyError(msgID(i), errRPC)
		}
		w.r.emit(tr.M{"ev": "ResultReturned", "j": j})
	}
	if w.s != nil {
		w.s.Go(fmt.Sprintf("n%d", j), run)
	} else {
		run()
	}
}

func (w *world) ack(i int) {
	w.r.emit(tr.M{"ev": "AckCall", "i": i})
	// msgs_ack batches carry several ids; ids nobody waits for (pings, answered requests) are normal
	w.ackN++
	switch w.ackN % 3 {
	case 0:
		w.e.NotifyAcks([]int64{msgID(i)})
	case 1:
		w.e.NotifyAcks([]int64{99996, msgID(i)})
	default:
		w.e.NotifyAcks([]int64{msgID(i), 99992})
	}
	w.r.emit(tr.M{"ev": "AckReturned", "i": i})
}

// gracefulClose starts Engine.Close: it refuses new calls and waits for the pending ones.
func (w *world) gracefulClose() {
	if w.gcStart || w.fcStart {
		return
	}
	w.gcStart = true
	w.r.emit(tr.M{"ev": "Close"})
	run := func() {
		w.e.Close()
		w.r.emit(tr.M{"ev": "CloseReturned"})
	}
	if w.s != nil {
		w.s.Go("gc", run)
	} else {
		go run()
	}
}

func (w *world) forceClose(done chan struct{}) {
	if w.fcStart {
		return
	}
	w.fcStart = true
	w.r.emit(tr.M{"ev": "ForceClose"})
	run := func() {
		w.e.ForceClose()
		w.r.emit(tr.M{"ev": "ForceCloseReturned"})
		if done != nil {
			close(done)
		}
	}
	if w.s != nil {
		w.s.Go("fc", run)
	} else {
		go run()
	}
}

// ---------------------------------------------------------------- scheduled replay

func replay(r *rec, trace int, c tr.M, maxRetries int) {
	s := sched.New()
	defer s.Close()
	r.emit(tr.M{"ev": "reset", "trace": trace, "maxretries": maxRetries, "sched": true})
	w := newWorld(r, s, maxRetries, 3)
	do := func(i int) string { return fmt.Sprintf("do%d", i) }
	rd := func(j int) string { return fmt.Sprintf("n%d", j) }
	for _, st := range tr.List(c["hist"]) {
		a := tr.Map(st)
		i, j := tr.Int(a["i"]), tr.Int(a["j"])
		switch tr.Str(a["a"]) {
		case "Start":
			if !s.Alive(do(i)) && !s.Finished(do(i)) {
				w.startDo(i)
			}
		case "FirstSend":
			w.mu.Lock()
			w.failNext[i] = tr.Str(a["ok"]) == "fail"
			w.blockNext[i] = tr.Str(a["ok"]) == "block"
			w.mu.Unlock()
			s.ReleaseIfAt(do(i), verifhook.RPCRegistered)
		case "RetrySel":
			if tr.Str(a["br"]) == "timer" {
				w.mu.Lock()
				w.failNext[i] = tr.Str(a["ok"]) == "fail"
				w.blockNext[i] = tr.Str(a["ok"]) == "block"
				w.mu.Unlock()
			}
			s.ReleaseIfAt(do(i), verifhook.RPCBeforeRetry)
		case "SendDone":
			w.mu.Lock()
			if ub := w.unblock[i]; ub != nil {
				close(ub)
				w.unblock[i] = nil
			}
			w.mu.Unlock()
		case "SendBreak":
			w.mu.Lock()
			if ub := w.unblock[i]; ub != nil {
				close(w.brk[i])
				w.unblock[i] = nil
			}
			w.mu.Unlock()
		case "SendAbort":
			// happens by itself when the context of a blocked send ends
		case "WaitSel":
			s.ReleaseIfAt(do(i), verifhook.RPCBeforeWait)
		case "Cancel":
			if cancel, ok := w.cancels[i]; ok {
				r.emit(tr.M{"ev": "Cancel", "i": i})
				cancel()
			}
		case "Tick":
			r.emit(tr.M{"ev": "Tick"})
			w.clk.Travel(retryInterval)
		case "NotifyAck":
			w.ack(i)
		case "Lookup":
			if !s.Alive(rd(j)) && !s.Finished(rd(j)) {
				w.notifyResult(j, i, tr.Str(a["k"]))
			}
		case "Cas":
			s.ReleaseIfAt(rd(j), verifhook.RPCAfterLookup)
		case "Decode":
			s.ReleaseIfAt(rd(j), verifhook.RPCAfterCAS)
		case "FC":
			w.forceClose(nil)
		case "GC":
			w.gracefulClose()
		case "FCRet", "GCRet":
		default:
			panic("unknown step " + tr.Str(a["a"]))
		}
		s.Settle()
		w.mu.Lock()
		for k := range w.failNext {
			w.failNext[k] = false
			w.blockNext[k] = false
		}
		w.mu.Unlock()
	}
	// drain: readers first, then every pending Do; then force close and drain again.
	drain := func() {
		for progress := true; progress; {
			progress = false
			for j := 1; j <= 4; j++ {
				if s.Release(rd(j)) {
					progress = true
					s.Settle()
				}
			}
			for i := 1; i <= w.maxReq; i++ {
				w.mu.Lock()
				if ub := w.unblock[i]; ub != nil {
					close(ub)
					w.unblock[i] = nil
					progress = true
				}
				w.mu.Unlock()
				s.Settle()
				if s.Release(do(i)) {
					progress = true
					s.Settle()
				}
			}
		}
	}
	drain()
	if b, ok := c["runout"].(bool); ok && b {
		// every other behaviour: let the retry timers of whatever is still pending run out first
		// (an unacknowledged request must hit the retry limit, never exceed it)
		for k := 0; k < maxRetries+2; k++ {
			r.emit(tr.M{"ev": "Tick"})
			w.clk.Travel(retryInterval)
			s.Settle()
			drain()
		}
	}
	w.forceClose(nil)
	s.Settle()
	drain()
	for i := 1; i <= w.maxReq; i++ {
		if s.Alive(do(i)) {
			r.emit(tr.M{"ev": "Stuck", "i": i})
			if cancel, ok := w.cancels[i]; ok {
				cancel() // let it go so the process does not leak goroutines
			}
		}
	}
	s.Settle()
	drain()
	r.emit(tr.M{"ev": "End"})
}

// ---------------------------------------------------------------- free running

func free(r *rec, trace int, rng *rand.Rand, maxRetries int) {
	// free running: gates never park; the scheduler only detects quiescence at the end of the trace
	s := sched.New()
	s.PassThrough = true
	s.Watch = []string{"rpc.(*Engine)", "main.(*world)"}
	defer s.Close()
	r.emit(tr.M{"ev": "reset", "trace": trace, "maxretries": maxRetries, "sched": false})
	w := newWorld(r, nil, maxRetries, 3)
	nreq := 3
	var wg sync.WaitGroup
	for i := 1; i <= nreq; i++ {
		w.startDo(i)
	}
	fcDone := make(chan struct{})
	steps := 6 + rng.Intn(10)
	j := 0
	for k := 0; k < steps; k++ {
		i := 1 + rng.Intn(nreq)
		switch rng.Intn(9) {
		case 0, 1:
			w.ack(i)
		case 2, 3, 4:
			if j < 4 {
				j++
				kind := "ok"
				if rng.Intn(4) == 0 {
					kind = "err"
				}
				jj := j
				wg.Add(1)
				go func() { defer wg.Done(); w.notifyResult(jj, i, kind) }()
			}
		case 5:
			r.emit(tr.M{"ev": "Tick"})
			w.clk.Travel(retryInterval)
		case 6:
			r.emit(tr.M{"ev": "Cancel", "i": i})
			w.cancels[i]()
		case 7:
			switch rng.Intn(4) {
			case 0:
				w.forceClose(fcDone)
			case 1:
				w.gracefulClose()
			}
		case 8:
			time.Sleep(time.Duration(rng.Intn(200)) * time.Microsecond)
		}
		if rng.Intn(3) == 0 {
			time.Sleep(time.Duration(rng.Intn(100)) * time.Microsecond)
		}
	}
	wg.Wait()
	w.forceClose(fcDone)
	// after ForceClose every Do must return: wait until the engine and caller goroutines have
	// finished or are blocked for good (the clock is fake, nothing else will happen); no wall-clock guess
	s.Settle()
	for i := 1; i <= nreq; i++ {
		if !w.isDone(i) {
			r.emit(tr.M{"ev": "Stuck", "i": i})
		}
	}
	select {
	case <-fcDone:
	default:
		// ForceClose itself did not return
		for i := 1; i <= nreq; i++ {
			if w.isDone(i) {
				r.emit(tr.M{"ev": "Stuck", "i": i})
			}
		}
	}
	r.emit(tr.M{"ev": "End"})
}

func main() {
	mode := flag.String("mode", "sched", "sched|free")
	in := flag.String("in", "", "behaviours ndjson")
	out := flag.String("out", "", "trace ndjson")
	n := flag.Int("n", 100, "free-running traces")
	seed := flag.Int64("seed", 1, "seed")
	maxRetries := flag.Int("maxretries", 2, "engine MaxRetries")
	flag.Parse()
	w := tr.NewW(*out)
	defer w.Close()
	r := &rec{w: w}
	switch *mode {
	case "sched":
		cases := tr.ReadCases(*in)
		for k, c := range cases {
			mr := *maxRetries
			if v, ok := c["maxretries"]; ok {
				mr = tr.Int(v)
			}
			replay(r, k, c, mr)
		}
		fmt.Fprintf(os.Stderr, "rpcdrv: %d behaviours, %d events\n", len(cases), w.N)
	case "free":
		rng := rand.New(rand.NewSource(*seed))
		for k := 0; k < *n; k++ {
			free(r, k, rng, 1+rng.Intn(3))
		}
		fmt.Fprintf(os.Stderr, "rpcdrv: %d free traces, %d events\n", *n, w.N)
	}
}
