// seqbox drives the real telegram/updates sequenceBox through TLC-generated
// edges (one test per transition) and histories, recording traces for the judge.
package main

import (
	"flag"
	"fmt"
	"os"

	"github.com/gotd/td/telegram/updates"

	"verifharness/internal/tr"
)

type rec struct {
	w     *tr.W
	trace int
}

func gapsJSON(g [][2]int) []any {
	r := make([]any, 0, len(g))
	for _, x := range g {
		r = append(r, tr.M{"from": x[0], "to": x[1]})
	}
	return r
}

func pendJSON(p []updates.VerifUpd) []any {
	r := make([]any, 0, len(p))
	for _, u := range p {
		r = append(r, tr.M{"s": u.State - u.Count, "e": u.State})
	}
	return r
}

func batchJSON(p []updates.VerifUpd) []any {
	r := make([]any, 0, len(p))
	for _, u := range p {
		r = append(r, tr.M{"s": u.State - u.Count, "e": u.State, "id": u.ID})
	}
	return r
}

func main() {
	mode := flag.String("mode", "edges", "edges|paths")
	in := flag.String("in", "", "cases ndjson")
	out := flag.String("out", "", "trace ndjson")
	fid := flag.String("fid", "", "fidelity ndjson (edges mode): observed successor states")
	flag.Parse()
	cases := tr.ReadCases(*in)
	w := tr.NewW(*out)
	defer w.Close()
	var fw *tr.W
	if *fid != "" {
		fw = tr.NewW(*fid)
		defer fw.Close()
	}
	nextID := 1000
	var box *updates.VerifBox
	box = updates.NewVerifBox(0, func(state int, batch []updates.VerifUpd) error {
		w.Emit(tr.M{"ev": "apply", "batch": batchJSON(batch), "st": state})
		return nil
	})
	do := func(act tr.M) {
		switch tr.Str(act["name"]) {
		case "Handle":
			s, e := tr.Int(act["s"]), tr.Int(act["e"])
			nextID++
			if err := box.Handle(updates.VerifUpd{State: e, Count: e - s, ID: nextID}); err != nil {
				panic(err)
			}
			w.Emit(tr.M{"ev": "handled", "s": s, "e": e, "id": nextID, "state": box.State()})
		case "Diff":
			v := tr.Int(act["v"])
			box.ClearGaps()
			box.SetState(v)
			w.Emit(tr.M{"ev": "diff", "v": v, "state": box.State()})
		default:
			panic("unknown act " + tr.Str(act["name"]))
		}
	}
	for i, c := range cases {
		switch *mode {
		case "edges":
			from := tr.Map(c["from"])
			var gaps [][2]int
			for _, g := range tr.List(from["gaps"]) {
				gm := tr.Map(g)
				gaps = append(gaps, [2]int{tr.Int(gm["from"]), tr.Int(gm["to"])})
			}
			var pend []updates.VerifUpd
			for k, p := range tr.List(from["pending"]) {
				pm := tr.Map(p)
				pend = append(pend, updates.VerifUpd{State: tr.Int(pm["e"]), Count: tr.Int(pm["e"]) - tr.Int(pm["s"]), ID: k + 1})
			}
			box.Load(tr.Int(from["state"]), gaps, pend)
			w.Emit(tr.M{"ev": "reset", "trace": i, "init": tr.Int(from["state"])})
			do(tr.Map(c["act"]))
			if fw != nil {
				fw.Emit(tr.M{"case": i, "got": tr.M{"state": box.State(), "gaps": gapsJSON(box.Gaps()), "pending": pendJSON(box.Pending())}})
			}
		case "paths":
			init := tr.Int(c["init"])
			box.Load(init, nil, nil)
			w.Emit(tr.M{"ev": "reset", "trace": i, "init": init})
			for _, a := range tr.List(c["hist"]) {
				do(tr.Map(a))
			}
		}
	}
	fmt.Fprintf(os.Stderr, "seqbox: %d cases, %d events\n", len(cases), w.N)
}
