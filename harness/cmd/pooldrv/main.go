// pooldrv replays TLC behaviours of spec/Pool/Pool.tla on the real pool.DC with the
// verifhook gate scheduler (mode sched) or runs seeded free-running stress (mode free),
// recording observable events for the PoolProp judge.
package main

import (
	"context"
	"flag"
	"fmt"
	"math/rand"
	"os"
	"runtime"
	"sync"
	"sync/atomic"
	"time"

	tdlog "github.com/gotd/log"
	"github.com/gotd/td/bin"
	"github.com/gotd/td/pool"
	"github.com/gotd/td/tdsync"
	"github.com/gotd/td/verifhook"

	"verifharness/internal/sched"
	"verifharness/internal/tr"
)

const pointInvoke = 1000

// pointCtor: inside the connection constructor the pool calls from createConnection
const pointCtor = 1001

// pointLogReleased: release wrote its "Connection released" log record (between finding no waiter and putting the
// connection on the free list)
const pointLogReleased = 1002

// logGate turns that log record into a scheduling point; no hook in gotd/td is needed.
type logGate struct{ w *world }

func (l logGate) Enabled(context.Context, tdlog.Level) bool { return true }
func (l logGate) Log(ctx context.Context, lvl tdlog.Level, msg string, attrs ...tdlog.Attr) {
	if msg == "Connection released" && l.w.s != nil {
		l.w.s.Park(pointLogReleased, 0)
	}
}

type rec struct {
	mu sync.Mutex
	w  *tr.W
}

func (r *rec) emit(m tr.M) {
	r.mu.Lock()
	r.w.Emit(m)
	r.mu.Unlock()
}

type callerTag struct{ c int }

func (callerTag) Encode(b *bin.Buffer) error { return nil }

type fakeConn struct {
	id      int
	w       *world
	ready   *tdsync.Ready
	kill    chan struct{}
	killed  atomic.Bool
	retc    chan struct{}
	retOnce sync.Once
}

func (f *fakeConn) Run(ctx context.Context) error {
	select {
	case <-ctx.Done():
	case <-f.kill:
		select {
		case <-f.retc:
		case <-ctx.Done():
		}
	}
	f.w.r.emit(tr.M{"ev": "RunReturned", "r": f.id})
	return context.Canceled
}

func (f *fakeConn) Invoke(ctx context.Context, in bin.Encoder, out bin.Decoder) error {
	c := in.(callerTag).c
	f.w.r.emit(tr.M{"ev": "InvokeStart", "c": c, "r": f.id})
	res := "ok"
	if f.w.s != nil {
		f.w.s.Park(pointInvoke, int64(c))
		f.w.mu.Lock()
		if f.w.outcome[c] == "dead" {
			res = "dead"
		}
		f.w.mu.Unlock()
	} else if !f.w.draining.Load() {
		// hold the connection for a while; spin instead of sleeping so that the goroutine never
		// looks blocked to the quiescence detector
		until := time.Now().Add(time.Duration(f.w.rng(150)) * time.Microsecond)
		for time.Now().Before(until) && !f.w.draining.Load() {
			runtime.Gosched()
		}
	}
	if f.killed.Load() {
		res = "dead"
	}
	f.w.r.emit(tr.M{"ev": "InvokeEnd", "c": c, "r": f.id, "res": res})
	if res == "dead" {
		return pool.ErrConnDead
	}
	return nil
}
func (f *fakeConn) Ping(ctx context.Context) error { return nil }
func (f *fakeConn) Ready() <-chan struct{}         { return f.ready.Ready() }

type world struct {
	r       *rec
	s       *sched.S
	dc      *pool.DC
	mu      sync.Mutex
	conns   []*fakeConn
	outcome map[int]string
	cancels map[int]context.CancelFunc
	canc    map[int]bool
	done    map[int]bool
	// draining: the random phase of a free run is over, Invoke returns at once
	draining atomic.Bool
	rmu      sync.Mutex
	rnd      *rand.Rand
}

func (w *world) rng(n int) int {
	w.rmu.Lock()
	defer w.rmu.Unlock()
	return w.rnd.Intn(n)
}

func newWorld(r *rec, s *sched.S, max int64, rnd *rand.Rand) *world {
	w := &world{r: r, s: s, outcome: map[int]string{}, cancels: map[int]context.CancelFunc{}, canc: map[int]bool{}, done: map[int]bool{}, rnd: rnd}
	w.dc = pool.NewDC(context.Background(), 2, func() pool.Conn {
		w.mu.Lock()
		f := &fakeConn{id: len(w.conns) + 1, w: w, ready: tdsync.NewReady(), kill: make(chan struct{}), retc: make(chan struct{})}
		w.conns = append(w.conns, f)
		w.mu.Unlock()
		r.emit(tr.M{"ev": "ConnCreated", "r": f.id})
		if w.s != nil {
			w.s.Park(pointCtor, int64(f.id))
		}
		return f
	}, pool.DCOptions{MaxOpenConnections: max, Logger: logGate{w}})
	return w
}

func (w *world) conn(r int) *fakeConn {
	w.mu.Lock()
	defer w.mu.Unlock()
	if r < 1 || r > len(w.conns) {
		return nil
	}
	return w.conns[r-1]
}

func (w *world) nconns() int {
	w.mu.Lock()
	defer w.mu.Unlock()
	return len(w.conns)
}

func (w *world) start(c int, wg *sync.WaitGroup) context.CancelFunc {
	ctx, cancel := context.WithCancel(context.Background())
	w.mu.Lock()
	w.cancels[c] = cancel
	w.canc[c] = false
	w.mu.Unlock()
	w.r.emit(tr.M{"ev": "CallerStart", "c": c})
	run := func() {
		err := w.dc.Invoke(ctx, callerTag{c}, nil)
		e := "ok"
		if err != nil {
			e = "err"
		}
		w.r.emit(tr.M{"ev": "CallerEnd", "c": c, "err": e})
		w.mu.Lock()
		w.done[c] = true
		w.mu.Unlock()
		if wg != nil {
			wg.Done()
		}
	}
	if w.s != nil {
		w.s.Go(name(c), run)
	} else {
		wg.Add(1)
		go run()
	}
	return cancel
}

// cancelAll cancels every caller context created so far.
func (w *world) cancelAll() {
	w.mu.Lock()
	cs := make([]context.CancelFunc, 0, len(w.cancels))
	for _, cancel := range w.cancels {
		cs = append(cs, cancel)
	}
	w.mu.Unlock()
	for _, cancel := range cs {
		cancel()
	}
}

func (w *world) isDone(c int) bool {
	w.mu.Lock()
	defer w.mu.Unlock()
	return w.done[c]
}

func (w *world) ready(r int) {
	if f := w.conn(r); f != nil && !f.killed.Load() {
		w.r.emit(tr.M{"ev": "Ready", "r": r})
		f.ready.Signal()
	}
}

func (w *world) killConn(r int) {
	if f := w.conn(r); f != nil && !f.killed.Swap(true) {
		w.r.emit(tr.M{"ev": "Kill", "r": r})
		close(f.kill)
	}
}

func (w *world) runReturn(r int) {
	if f := w.conn(r); f != nil && f.killed.Load() {
		f.retOnce.Do(func() { close(f.retc) })
	}
}

func name(c int) string { return fmt.Sprintf("c%d", c) }

var gateOf = map[string]uint16{
	"A0": verifhook.PoolAcqEnter, "A1": verifhook.PoolAcqPopped, "A2": pointCtor, "A3": verifhook.PoolAcqCreated,
	"A4pre": verifhook.PoolAcqWaiting, "DelKey": verifhook.PoolAcqGiveUp, "Recv": verifhook.PoolAcqGaveUp,
	"Invoke": pointInvoke, "R0": verifhook.PoolRelease, "R1": pointLogReleased, "T1": verifhook.PoolTransferSend,
}

func replay(r *rec, trace int, c tr.M, max int64) {
	s := sched.New()
	s.Watch = []string{"pool.(*DC)", "fakeConn"}
	s.NoPark = map[uint16]bool{verifhook.PoolDead: true}
	s.OnAny = func(point uint16, key int64) {
		if point == verifhook.PoolDead {
			r.emit(tr.M{"ev": "PoolDead", "r": int(key)})
		}
	}
	defer s.Close()
	r.emit(tr.M{"ev": "reset", "trace": trace, "max": int(max), "sched": true})
	w := newWorld(r, s, max, rand.New(rand.NewSource(1)))
	callers := map[int]bool{}
	for _, st := range tr.List(c["hist"]) {
		a := tr.Map(st)
		cc, rr := tr.Int(a["c"]), tr.Int(a["r"])
		switch act := tr.Str(a["a"]); act {
		case "Start":
			if !s.Alive(name(cc)) {
				callers[cc] = true
				w.start(cc, nil)
			}
		case "A0", "A1", "A2", "A3", "A4pre", "DelKey", "Recv", "R0", "R1", "T1":
			s.ReleaseIfAt(name(cc), gateOf[act])
		case "A4", "RunDead", "BgRelease", "BgDrop":
			// happens by itself in the real code
		case "Invoke":
			w.mu.Lock()
			w.outcome[cc] = tr.Str(a["res"])
			w.mu.Unlock()
			s.ReleaseIfAt(name(cc), pointInvoke)
		case "Cancel":
			if cancel, ok := w.cancels[cc]; ok && s.Alive(name(cc)) && !w.canc[cc] {
				w.canc[cc] = true
				r.emit(tr.M{"ev": "Cancel", "c": cc})
				cancel()
			}
		case "Ready":
			w.ready(rr)
		case "Kill":
			w.killConn(rr)
		case "RunReturn":
			w.runReturn(rr)
		default:
			panic("unknown step " + act)
		}
		s.Settle()
	}
	// drain: let everything run to completion, all connections either ready or fully dead
	drain := func(ids []int) {
		for progress := true; progress; {
			progress = false
			for r := 1; r <= w.nconns(); r++ {
				f := w.conn(r)
				if f.killed.Load() {
					done := false
					f.retOnce.Do(func() { close(f.retc); done = true })
					if done {
						progress = true
						s.Settle()
					}
				} else {
					select {
					case <-f.ready.Ready():
					default:
						w.ready(r)
						progress = true
						s.Settle()
					}
				}
			}
			for _, cc := range ids {
				w.mu.Lock()
				w.outcome[cc] = "ok"
				w.mu.Unlock()
				if s.Release(name(cc)) {
					progress = true
					s.Settle()
				}
			}
		}
	}
	var ids []int
	for cc := range callers {
		ids = append(ids, cc)
	}
	drain(ids)
	for _, cc := range ids {
		if s.Alive(name(cc)) {
			r.emit(tr.M{"ev": "Stranded", "c": cc, "cancelled": w.canc[cc]})
		}
	}
	// probe: with every caller gone, a fresh caller must be served
	w.start(9, nil)
	s.Settle()
	drain([]int{9})
	if s.Alive(name(9)) {
		r.emit(tr.M{"ev": "ProbeStarved"})
	}
	w.cancelAll()
	s.PassThrough = true
	for _, cc := range append(ids, 9) {
		s.Release(name(cc))
	}
	closed := make(chan struct{})
	go func() { _ = w.dc.Close(); close(closed) }()
	select {
	case <-closed:
	case <-time.After(120 * time.Second):
		panic("DC.Close did not return")
	}
	r.emit(tr.M{"ev": "End"})
}

func free(r *rec, trace int, rnd *rand.Rand) {
	max := int64(1 + rnd.Intn(3))
	r.emit(tr.M{"ev": "reset", "trace": trace, "max": int(max), "sched": false})
	// free running: gates never park; the scheduler records the pool's death declarations and
	// detects quiescence of the pool goroutines for the end-of-trace probes
	s := sched.New()
	s.PassThrough = true
	s.Watch = []string{"pool.(*DC)", "fakeConn", "main.(*world)"}
	s.OnAny = func(point uint16, key int64) {
		if point == verifhook.PoolDead {
			r.emit(tr.M{"ev": "PoolDead", "r": int(key)})
		}
	}
	defer s.Close()
	w := newWorld(r, nil, max, rnd)
	var wg sync.WaitGroup
	ncall := 3 + rnd.Intn(4)
	stop := make(chan struct{})
	// environment: connections become ready, sometimes die
	var envWG sync.WaitGroup
	envWG.Add(1)
	go func() {
		defer envWG.Done()
		for {
			select {
			case <-stop:
				return
			default:
			}
			n := w.nconns()
			if n > 0 {
				k := 1 + w.rng(n)
				switch w.rng(10) {
				case 0:
					w.killConn(k)
				case 1:
					w.runReturn(k)
				default:
					w.ready(k)
				}
			}
			time.Sleep(time.Duration(w.rng(80)) * time.Microsecond)
		}
	}()
	// cancellations fire from timers; every timer is accounted for before the trace is judged
	var timers []*time.Timer
	var timerWG sync.WaitGroup
	for c := 1; c <= ncall; c++ {
		cancel := w.start(c, &wg)
		if w.rng(3) == 0 {
			cc := c
			d := time.Duration(w.rng(300)) * time.Microsecond
			timerWG.Add(1)
			timers = append(timers, time.AfterFunc(d, func() {
				defer timerWG.Done()
				w.r.emit(tr.M{"ev": "Cancel", "c": cc})
				cancel()
			}))
		}
		time.Sleep(time.Duration(w.rng(100)) * time.Microsecond)
	}
	done := make(chan struct{})
	go func() { wg.Wait(); close(done) }()
	// let the random environment run until the callers are through; how long this takes decides nothing
	select {
	case <-done:
	case <-time.After(500 * time.Millisecond):
	}
	close(stop)
	envWG.Wait()
	for _, t := range timers {
		if t.Stop() {
			timerWG.Done()
		}
	}
	timerWG.Wait()
	w.draining.Store(true)
	// drain: every connection becomes ready or finishes dying, until nothing moves any more;
	// a caller that has not returned by then is blocked for good
	drain := func() {
		s.Settle()
		for progress := true; progress; {
			progress = false
			for k := 1; k <= w.nconns(); k++ {
				f := w.conn(k)
				if f.killed.Load() {
					closed := false
					f.retOnce.Do(func() { close(f.retc); closed = true })
					if closed {
						progress = true
						s.Settle()
					}
				} else {
					select {
					case <-f.ready.Ready():
					default:
						w.ready(k)
						progress = true
						s.Settle()
					}
				}
			}
		}
	}
	drain()
	for c := 1; c <= ncall; c++ {
		if !w.isDone(c) {
			r.emit(tr.M{"ev": "Stranded", "c": c, "cancelled": false})
		}
	}
	// probe: a fresh caller must be served
	var pwg sync.WaitGroup
	w.start(9, &pwg)
	drain()
	if !w.isDone(9) {
		r.emit(tr.M{"ev": "ProbeStarved"})
	}
	w.cancelAll()
	closed := make(chan struct{})
	go func() { _ = w.dc.Close(); close(closed) }()
	select {
	case <-closed:
	case <-time.After(120 * time.Second):
		panic("DC.Close did not return")
	}
	r.emit(tr.M{"ev": "End"})
}

func main() {
	mode := flag.String("mode", "sched", "sched|free")
	in := flag.String("in", "", "behaviours ndjson")
	out := flag.String("out", "", "trace ndjson")
	n := flag.Int("n", 100, "free-running traces")
	seed := flag.Int64("seed", 1, "seed")
	flag.Parse()
	w := tr.NewW(*out)
	defer w.Close()
	r := &rec{w: w}
	switch *mode {
	case "sched":
		cases := tr.ReadCases(*in)
		for k, c := range cases {
			max := int64(1)
			if v, ok := c["max"]; ok {
				max = int64(tr.Int(v))
			}
			replay(r, k, c, max)
		}
		fmt.Fprintf(os.Stderr, "pooldrv: %d behaviours, %d events\n", len(cases), w.N)
	case "free":
		rnd := rand.New(rand.NewSource(*seed))
		for k := 0; k < *n; k++ {
			free(r, k, rnd)
		}
		fmt.Fprintf(os.Stderr, "pooldrv: %d free traces, %d events\n", *n, w.N)
	}
}
