// clientdrv runs a real telegram.Client (primary connection, reconnect loop,
// invokeConn retry) against a scripted MTProto server living in the harness:
// in-memory transport handed out by a dcs.Resolver, real crypto on both sides.
// The server applies a per-request policy from the TLC-generated case
// (Reconnect.tla): answer, kill the connection on arrival, acknowledge then
// kill, answer then kill, hold.  It records how often each request arrived and
// what each invocation returned.  It contains no oracle.
package main

import (
	"context"
	"encoding/binary"
	"flag"
	"fmt"
	"io"
	"math/rand"
	"os"
	"strings"
	"sync"
	"sync/atomic"
	"time"

	"github.com/cenkalti/backoff/v4"
	"github.com/go-faster/errors"

	tdlog "github.com/gotd/log"
	"github.com/gotd/td/bin"
	"github.com/gotd/td/crypto"
	"github.com/gotd/td/mt"
	"github.com/gotd/td/pool"
	"github.com/gotd/td/proto"
	"github.com/gotd/td/rpc"
	"github.com/gotd/td/session"
	"github.com/gotd/td/telegram"
	"github.com/gotd/td/telegram/dcs"
	"github.com/gotd/td/tg"
	"github.com/gotd/td/transport"

	"verifharness/internal/tr"
)

const (
	reqTypeID = 0x7e51f001
	resTypeID = 0x7e51f002
)

type reqObj struct{ k int }

func (r *reqObj) Encode(b *bin.Buffer) error { b.PutID(reqTypeID); b.PutInt32(int32(r.k)); return nil }
func (r *reqObj) TypeID() uint32             { return reqTypeID }

type outObj struct{ tag int }

func (o *outObj) Decode(b *bin.Buffer) error {
	if err := b.ConsumeID(resTypeID); err != nil {
		return err
	}
	v, err := b.Int32()
	o.tag = int(v)
	return err
}

// ---------------------------------------------------------------- transport

type pipe struct {
	failWrites *atomic.Bool // half-dead link: writes fail, reads still block (shared by all links of the server)
	toClient   chan []byte
	toServer   chan []byte
	closed     chan struct{}
	once       sync.Once
}

func newPipe(fail *atomic.Bool) *pipe {
	return &pipe{failWrites: fail, toClient: make(chan []byte, 64), toServer: make(chan []byte, 64), closed: make(chan struct{})}
}
func (p *pipe) Send(ctx context.Context, b *bin.Buffer) error {
	if p.failWrites.Load() {
		return io.ErrClosedPipe
	}
	select {
	case <-p.closed:
		return io.ErrClosedPipe
	default:
	}
	select {
	case p.toServer <- append([]byte(nil), b.Buf...):
		return nil
	case <-ctx.Done():
		return ctx.Err()
	case <-p.closed:
		return io.ErrClosedPipe
	}
}
func (p *pipe) Recv(ctx context.Context, b *bin.Buffer) error {
	select {
	case f := <-p.toClient:
		b.ResetTo(f)
		return nil
	case <-ctx.Done():
		return ctx.Err()
	case <-p.closed:
		// deliver what is already queued first
		select {
		case f := <-p.toClient:
			b.ResetTo(f)
			return nil
		default:
		}
		return io.EOF
	}
}
func (p *pipe) Close() error { p.once.Do(func() { close(p.closed) }); return nil }

// ---------------------------------------------------------------- server

type server struct {
	mu       sync.Mutex
	key      crypto.AuthKey
	cipher   crypto.Cipher
	policy   map[int]string
	receipts map[int]int
	dials    int
	lastID   int64
	rng      *rand.Rand
	holdBoth bool
	held     []heldReq
	pipes    []*pipe
	failing  atomic.Bool

	rekillArmed, rekillDone atomic.Bool
	dialsAtKill             int
}

// hookLogger turns one log record of the library into a scheduling point (no hook in gotd/td needed):
// invokeConn logs wakeMsg in the invoker's goroutine right after it noticed a replaced connection and
// before it picks the connection for its next attempt.
type hookLogger struct{ s *server }

const wakeMsg = "Primary connection replaced, retrying request"

func (h hookLogger) Enabled(context.Context, tdlog.Level) bool { return true }
func (h hookLogger) Log(ctx context.Context, lvl tdlog.Level, msg string, attrs ...tdlog.Attr) {
	if os.Getenv("CLIENTDRV_DEBUG") != "" {
		fmt.Fprintln(os.Stderr, "log:", msg)
	}
	if msg == wakeMsg && h.s.rekillArmed.CompareAndSwap(true, false) {
		h.s.rekill()
	}
}

// rekill: the replacement connection dies too; returns when the client has replaced it again.
func (s *server) rekill() {
	wait := func(n int) bool {
		deadline := time.Now().Add(5 * time.Second)
		for time.Now().Before(deadline) {
			s.mu.Lock()
			d := s.dials
			s.mu.Unlock()
			if d >= n {
				return true
			}
			time.Sleep(time.Millisecond)
		}
		return false
	}
	s.mu.Lock()
	n := s.dialsAtKill
	s.mu.Unlock()
	if !wait(n + 1) { // the replacement has dialled
		return
	}
	s.mu.Lock()
	p := s.pipes[len(s.pipes)-1]
	s.mu.Unlock()
	p.Close()
	// the next dial happens only after the reconnection loop replaced the primary connection once more
	if wait(n + 2) {
		s.rekillDone.Store(true)
	}
}

type heldReq struct {
	p     *pipe
	k     int
	msgID int64
	sess  int64
}

func (s *server) newID() int64 {
	id := int64(proto.NewMessageID(time.Now(), proto.MessageServerResponse))
	if id <= s.lastID {
		id = s.lastID + 4
	}
	s.lastID = id
	return id
}

func (s *server) send(p *pipe, sess int64, body []byte, content bool) {
	seq := int32(0)
	if content {
		seq = 1
	}
	out := &bin.Buffer{}
	d := crypto.EncryptedMessageData{SessionID: sess, Salt: 1, MessageID: s.newID(), SeqNo: seq, Message: raw(body)}
	if err := s.cipher.Encrypt(s.key, d, out); err != nil {
		panic(err)
	}
	select {
	case p.toClient <- out.Buf:
	case <-p.closed:
	}
}

type raw []byte

func (r raw) Encode(b *bin.Buffer) error { b.Put(r); return nil }

func result(reqMsgID int64, body bin.Encoder) []byte {
	rb := &bin.Buffer{}
	_ = body.Encode(rb)
	r := proto.Result{RequestMessageID: reqMsgID, Result: rb.Buf}
	b := &bin.Buffer{}
	_ = r.Encode(b)
	return b.Buf
}

type resObj struct{ tag int }

func (r *resObj) Encode(b *bin.Buffer) error {
	b.PutID(resTypeID)
	b.PutInt32(int32(r.tag))
	return nil
}

func findID(body []byte, id uint32) int {
	var pat [4]byte
	binary.LittleEndian.PutUint32(pat[:], id)
	for i := 0; i+4 <= len(body); i += 4 {
		if body[i] == pat[0] && body[i+1] == pat[1] && body[i+2] == pat[2] && body[i+3] == pat[3] {
			return i
		}
	}
	return -1
}

func (s *server) apply(p *pipe, sess, msgID int64, k int, pol string) {
	ack := func() {
		a := mt.MsgsAck{MsgIDs: []int64{msgID}}
		b := &bin.Buffer{}
		_ = a.Encode(b)
		s.send(p, sess, b.Buf, false)
	}
	switch pol {
	case "answer", "sendfail":
		// "sendfail" reaching the server means the write did not fail in this run: the request is simply answered
		s.send(p, sess, result(msgID, &resObj{tag: 10 * k}), true)
	case "kill":
		p.Close()
	case "kill_rekill":
		s.mu.Lock()
		s.dialsAtKill = s.dials
		s.mu.Unlock()
		s.rekillArmed.Store(true)
		p.Close()
	case "ack_kill":
		ack()
		time.Sleep(30 * time.Millisecond) // let the client read the acknowledgement before the link dies
		p.Close()
	case "result_kill":
		s.send(p, sess, result(msgID, &resObj{tag: 10 * k}), true)
		p.Close()
	case "ack_answer":
		ack()
		time.Sleep(10 * time.Millisecond)
		s.send(p, sess, result(msgID, &resObj{tag: 10 * k}), true)
	case "hold":
	}
}

// serve handles one connection.
func (s *server) serve(p *pipe) {
	greeted := false
	for {
		var f []byte
		select {
		case f = <-p.toServer:
		case <-p.closed:
			return
		}
		d, err := s.cipher.DecryptFromBuffer(s.key, &bin.Buffer{Buf: f})
		if err != nil {
			if os.Getenv("CLIENTDRV_DEBUG") != "" {
				fmt.Fprintln(os.Stderr, "server: decrypt error", err, len(f))
			}
			continue
		}
		body := d.Data()
		if os.Getenv("CLIENTDRV_DEBUG") != "" && len(body) >= 4 {
			fmt.Fprintf(os.Stderr, "server: got %x len %d getcfg@%d\n", binary.LittleEndian.Uint32(body), len(body), findID(body, tg.HelpGetConfigRequestTypeID))
		}
		if !greeted {
			greeted = true
			ns := mt.NewSessionCreated{FirstMsgID: d.MessageID, UniqueID: 7, ServerSalt: 1}
			nb := &bin.Buffer{}
			_ = ns.Encode(nb)
			s.send(p, d.SessionID, nb.Buf, true)
		}
		switch {
		case findID(body, tg.HelpGetConfigRequestTypeID) >= 0 && findID(body, reqTypeID) < 0:
			cfg := &tg.Config{ThisDC: 2, DCOptions: []tg.DCOption{{ID: 2, IPAddress: "10.0.0.2", Port: 443}}, DCTxtDomainName: "x", MeURLPrefix: "m"}
			s.send(p, d.SessionID, result(d.MessageID, cfg), true)
		case findID(body, reqTypeID) >= 0:
			i := findID(body, reqTypeID)
			k := int(int32(binary.LittleEndian.Uint32(body[i+4:])))
			s.mu.Lock()
			s.receipts[k]++
			first := s.receipts[k] == 1
			pol := "answer"
			if first {
				pol = s.policy[k]
			}
			if s.holdBoth && first {
				s.held = append(s.held, heldReq{p, k, d.MessageID, d.SessionID})
				ready := len(s.held) == 2
				held := s.held
				s.mu.Unlock()
				if ready {
					// both requests are in flight on this connection: the killing policy is applied last
					for _, h := range held {
						if strings.HasPrefix(s.policy[h.k], "ack") {
							a := mt.MsgsAck{MsgIDs: []int64{h.msgID}}
							b := &bin.Buffer{}
							_ = a.Encode(b)
							s.send(h.p, h.sess, b.Buf, false)
						}
					}
					time.Sleep(30 * time.Millisecond)
					p.Close()
				}
				continue
			}
			s.mu.Unlock()
			s.apply(p, d.SessionID, d.MessageID, k, pol)
		default:
			// pings, acks, salts requests: ignored
		}
	}
}

type resolver struct{ s *server }

func (r resolver) dial(ctx context.Context) (transport.Conn, error) {
	p := newPipe(&r.s.failing)
	r.s.mu.Lock()
	r.s.dials++
	r.s.pipes = append(r.s.pipes, p)
	r.s.mu.Unlock()
	go r.s.serve(p)
	return p, nil
}
func (r resolver) Primary(ctx context.Context, dc int, l dcs.List) (transport.Conn, error) {
	return r.dial(ctx)
}
func (r resolver) MediaOnly(ctx context.Context, dc int, l dcs.List) (transport.Conn, error) {
	return r.dial(ctx)
}
func (r resolver) CDN(ctx context.Context, dc int, l dcs.List) (transport.Conn, error) {
	return r.dial(ctx)
}

func errClass(err error) string {
	switch {
	case err == nil:
		return "ok"
	case errors.Is(err, context.Canceled), errors.Is(err, context.DeadlineExceeded):
		return "err"
	case errors.Is(err, rpc.ErrEngineClosed), errors.Is(err, pool.ErrConnDead):
		return "err"
	}
	return "err"
}

func runCase(cs tr.M, seed int64) tr.M {
	rng := rand.New(rand.NewSource(seed))
	var kb crypto.Key
	rng.Read(kb[:])
	key := kb.WithID()
	srv := &server{key: key, cipher: crypto.NewServerCipher(rng), policy: map[int]string{}, receipts: map[int]int{}, rng: rng,
		holdBoth: tr.Bool(cs["concurrent"])}
	var ks []int
	for _, r := range tr.List(cs["reqs"]) {
		m := tr.Map(r)
		srv.policy[tr.Int(m["k"])] = tr.Str(m["policy"])
		ks = append(ks, tr.Int(m["k"]))
	}
	st := &session.StorageMemory{}
	l := session.Loader{Storage: st}
	_ = l.Save(context.Background(), &session.Data{DC: 2, Addr: "10.0.0.2:443", AuthKey: key.Value[:], AuthKeyID: key.ID[:], Salt: 1})
	client := telegram.NewClient(1, "hash", telegram.Options{
		Resolver: resolver{srv}, SessionStorage: st, NoUpdates: true, DC: 2,
		ReconnectionBackoff: func() backoff.BackOff { return backoff.NewConstantBackOff(20 * time.Millisecond) },
		RetryInterval:       time.Hour, MaxRetries: 5, DialTimeout: 5 * time.Second,
		Logger: hookLogger{srv},
	})
	results := map[int]string{}
	tags := map[int]int{}
	var rmu sync.Mutex
	ctx, cancel := context.WithTimeout(context.Background(), 20*time.Second)
	defer cancel()
	invoke := func(ctx context.Context, k int, wg *sync.WaitGroup) {
		defer wg.Done()
		var o outObj
		ictx, icancel := context.WithTimeout(ctx, 8*time.Second)
		defer icancel()
		err := client.Invoke(ictx, &reqObj{k}, &o)
		if os.Getenv("CLIENTDRV_DEBUG") != "" {
			fmt.Fprintf(os.Stderr, "client: invoke %d -> %v\n", k, err)
		}
		rmu.Lock()
		results[k] = errClass(err)
		tags[k] = o.tag
		rmu.Unlock()
	}
	runErr := client.Run(ctx, func(ctx context.Context) error {
		if os.Getenv("CLIENTDRV_DEBUG") != "" {
			fmt.Fprintln(os.Stderr, "client: ready, running scenario")
		}
		var wg sync.WaitGroup
		if tr.Bool(cs["concurrent"]) {
			for _, k := range ks {
				wg.Add(1)
				go invoke(ctx, k, &wg)
			}
			wg.Wait()
			return nil
		}
		for _, k := range ks {
			wg.Add(1)
			if srv.policy[k] == "hold" {
				// the request is never answered: the client is closed while it is pending
				go invoke(ctx, k, &wg)
				deadline := time.Now().Add(3 * time.Second)
				for time.Now().Before(deadline) {
					srv.mu.Lock()
					n := srv.receipts[k]
					srv.mu.Unlock()
					if n > 0 {
						break
					}
					time.Sleep(5 * time.Millisecond)
				}
				// requests that were never issued do not exist for the server; their callers get the closed client
				rmu.Lock()
				for _, k2 := range ks {
					if _, ok := srv.policy[k2]; ok && k2 > k {
						results[k2] = "err"
					}
				}
				rmu.Unlock()
				return errors.New("close client")
			}
			srv.mu.Lock()
			dialsBefore := srv.dials
			live := append([]*pipe(nil), srv.pipes...)
			srv.mu.Unlock()
			if srv.policy[k] == "sendfail" {
				// the link is dying: the write of this request fails, shortly afterwards the connection is gone
				srv.failing.Store(true)
				_ = live
				time.AfterFunc(50*time.Millisecond, func() {
					srv.mu.Lock()
					all := append([]*pipe(nil), srv.pipes...)
					srv.mu.Unlock()
					for _, p := range all {
						p.Close()
					}
					srv.failing.Store(false)
				})
			}
			invoke(ctx, k, &wg)
			if p := srv.policy[k]; p == "kill" || p == "ack_kill" || p == "result_kill" || p == "sendfail" || p == "kill_rekill" {
				// the next request is issued only after the client has replaced the connection
				deadline := time.Now().Add(3 * time.Second)
				for time.Now().Before(deadline) {
					srv.mu.Lock()
					n := srv.dials
					srv.mu.Unlock()
					if n > dialsBefore {
						break
					}
					time.Sleep(2 * time.Millisecond)
				}
				time.Sleep(20 * time.Millisecond)
			}
		}
		return nil
	})
	if os.Getenv("CLIENTDRV_DEBUG") != "" {
		fmt.Fprintln(os.Stderr, "client: Run returned", runErr)
	}
	// an invocation pending at close must have returned
	done := make(chan struct{})
	go func() {
		for {
			rmu.Lock()
			n := len(results)
			rmu.Unlock()
			if n == len(ks) {
				close(done)
				return
			}
			time.Sleep(5 * time.Millisecond)
		}
	}()
	stuck := false
	select {
	case <-done:
	case <-time.After(5 * time.Second):
		stuck = true
	}
	rmu.Lock()
	defer rmu.Unlock()
	srv.mu.Lock()
	defer srv.mu.Unlock()
	var out []any
	for _, k := range ks {
		r, ok := results[k]
		if !ok {
			r = "stuck"
		}
		m := tr.M{"k": k, "res": r, "receipts": srv.receipts[k]}
		if r == "ok" {
			m["tag"] = tags[k]
		}
		out = append(out, m)
	}
	res := tr.M{"reqs": out, "stuck": stuck}
	for _, k := range ks {
		if srv.policy[k] == "kill_rekill" && srv.receipts[k] > 0 {
			// the schedule was realised only if the second replacement was observed at the wake-up point
			res["rekill_done"] = srv.rekillDone.Load()
		}
	}
	return res
}

func main() {
	in := flag.String("in", "", "cases ndjson")
	outp := flag.String("out", "", "results ndjson")
	seed := flag.Int64("seed", 1, "seed")
	reps := flag.Int("reps", 1, "runs per case")
	flag.Parse()
	cases := tr.ReadCases(*in)
	out := tr.NewW(*outp)
	defer out.Close()
	for i, cs := range cases {
		for r := 0; r < *reps; r++ {
			out.Emit(tr.M{"case": i, "rep": r, "got": runCase(cs, *seed+int64(i*31+r))})
		}
	}
	fmt.Fprintf(os.Stderr, "clientdrv: %d cases x %d\n", len(cases), *reps)
}
