// fdrv runs TLC-enumerated abstract cases against real gotd/td functions.
// Each module concretizes a case into real inputs (random bytes seeded by -seed),
// calls the real code and reports the observed result; it contains no oracle.
package main

import (
	"flag"
	"fmt"
	"math/rand"
	"os"

	"verifharness/internal/tr"
)

type modFunc func(c tr.M, rng *rand.Rand) tr.M

var modules = map[string]modFunc{}

func safe(f modFunc, c tr.M, rng *rand.Rand) (got tr.M) {
	defer func() {
		if r := recover(); r != nil {
			got = tr.M{"panic": fmt.Sprint(r)}
		}
	}()
	return f(c, rng)
}

func main() {
	mod := flag.String("module", "", "module name")
	in := flag.String("in", "", "cases ndjson")
	out := flag.String("out", "", "results ndjson")
	reps := flag.Int("reps", 1, "concretizations per case")
	seed := flag.Int64("seed", 1, "seed")
	flag.Parse()
	f, ok := modules[*mod]
	if !ok {
		fmt.Fprintln(os.Stderr, "unknown module", *mod)
		os.Exit(3)
	}
	cases := tr.ReadCases(*in)
	w := tr.NewW(*out)
	defer w.Close()
	rng := rand.New(rand.NewSource(*seed))
	for i, c := range cases {
		for k := 0; k < *reps; k++ {
			w.Emit(tr.M{"case": i, "rep": k, "got": safe(f, c, rng)})
		}
	}
	fmt.Fprintf(os.Stderr, "fdrv %s: %d cases x %d\n", *mod, len(cases), *reps)
}
