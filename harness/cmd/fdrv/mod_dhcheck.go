package main

import (
	crand "crypto/rand"
	"math/big"
	"math/rand"
	"sync"

	"github.com/gotd/td/crypto"

	"verifharness/internal/tr"
)

const prodPrimeHex = "C71CAEB9C6B1C9048E6C522F70F13F73980D40238E3E21C14934D037563D930F48198A0AA7C14058229493D22530F4DBFA336F6E0AC925139543AED44CCE7C3720FD51F69458705AC68CD4FE6B6B13ABDC9746512969328454F18FAF8C595F642477FE96BB2A941D5BCD1D4AC8CC49880708FA9B378E3C4F3A9060BEE67CF9A4A4A695811051907E162753B56B0F6B410DBA74D8A84B2A14B3144E0EF1284754FD17ED950D5965B4B9DD46582DB1178D169C6BC465B0D6FF9CA3928FEF5B9AE4E418FC15E83EBEA0F87FA9FF5EED70050DED2849F47BF959D956850CE929851F0D8115F635B105EE2E4E15D04B2454BF6F4FADF034B10403119CD8E3B92FCC5B"

var (
	dhOnce                sync.Once
	prodPrime, notSafe    *big.Int
	safe1024, bit2049Prim *big.Int
)

func dhSetup() {
	dhOnce.Do(func() {
		prodPrime, _ = new(big.Int).SetString(prodPrimeHex, 16)
		// a 2048-bit prime whose (p-1)/2 is composite
		for {
			p, _ := crand.Prime(crand.Reader, 2048)
			h := new(big.Int).Rsh(new(big.Int).Sub(p, big.NewInt(1)), 1)
			if !h.ProbablyPrime(20) {
				notSafe = p
				break
			}
		}
		// a 1024-bit safe prime
		for {
			q, _ := crand.Prime(crand.Reader, 1023)
			p := new(big.Int).Add(new(big.Int).Lsh(q, 1), big.NewInt(1))
			if p.ProbablyPrime(20) {
				safe1024 = p
				break
			}
		}
		bit2049Prim, _ = crand.Prime(crand.Reader, 2049)
	})
}

// random odd 2048-bit modulus (CheckDHParams does not test primality)
func randModulus(rng *rand.Rand) *big.Int {
	b := make([]byte, 256)
	rng.Read(b)
	b[0] |= 0x80
	b[255] |= 1
	return new(big.Int).SetBytes(b)
}

func anchorValue(a string, d int, p *big.Int, rng *rand.Rand) *big.Int {
	lo := new(big.Int).Lsh(big.NewInt(1), 1984)
	var v *big.Int
	switch a {
	case "one":
		v = big.NewInt(1)
	case "lo":
		v = lo
	case "mid":
		v = new(big.Int).Rsh(p, 1)
		v.Add(v, big.NewInt(int64(rng.Intn(1000))))
	case "hi":
		v = new(big.Int).Sub(p, lo)
	case "pm1":
		v = new(big.Int).Sub(p, big.NewInt(1))
	case "p":
		v = new(big.Int).Set(p)
	case "p_lo":
		v = new(big.Int).Add(p, lo)
	case "p_mid":
		v = new(big.Int).Add(p, new(big.Int).Rsh(p, 1))
	case "twop":
		v = new(big.Int).Lsh(p, 1)
	case "max2048":
		v = new(big.Int).Lsh(big.NewInt(1), 2048)
		v.Sub(v, big.NewInt(3))
	case "over2048":
		v = new(big.Int).Lsh(big.NewInt(1), 2056)
	default:
		panic("bad anchor")
	}
	return new(big.Int).Add(v, big.NewInt(int64(d)))
}

func init() {
	modules["dhcheck"] = func(c tr.M, rng *rand.Rand) tr.M {
		in := tr.Map(c["in"])
		switch tr.Str(in["kind"]) {
		case "gp":
			return tr.M{"accept": crypto.CheckGP(tr.Int(in["g"]), big.NewInt(int64(tr.Int(in["p"])))) == nil}
		case "range":
			p := randModulus(rng)
			if rng.Intn(2) == 0 {
				dhSetup()
				p = prodPrime
			}
			good := anchorValue("mid", 0, p, rng)
			v := anchorValue(tr.Str(in["anchor"]), tr.Int(in["delta"]), p, rng)
			ga, gb := good, good
			if tr.Str(in["who"]) == "ga" {
				ga = v
			} else {
				gb = v
			}
			return tr.M{"accept": crypto.CheckDHParams(p, big.NewInt(3), ga, gb) == nil}
		case "grange":
			p := randModulus(rng)
			good := anchorValue("mid", 0, p, rng)
			g := anchorValue(tr.Str(in["anchor"]), tr.Int(in["delta"]), p, rng)
			return tr.M{"accept": crypto.CheckDHParams(p, g, good, good) == nil}
		case "dh":
			dhSetup()
			var p *big.Int
			switch tr.Str(in["p"]) {
			case "prod":
				p = prodPrime
			case "prod_plus2":
				p = new(big.Int).Add(prodPrime, big.NewInt(2))
			case "prime_not_safe":
				p = notSafe
			case "safe_1024":
				p = safe1024
			case "even":
				p = new(big.Int).Add(prodPrime, big.NewInt(1))
			case "bit2049":
				p = bit2049Prim
			}
			return tr.M{"accept": crypto.CheckDH(tr.Int(in["g"]), p) == nil}
		case "pq":
			a, b := big.NewInt(int64(tr.Int(in["a"]))), big.NewInt(int64(tr.Int(in["b"])))
			pq := new(big.Int).Mul(a, b)
			p, q, err := crypto.DecomposePQ(pq, rng)
			if err != nil {
				return tr.M{"ok": false, "err": err.Error()}
			}
			return tr.M{"ok": true, "p": p.Int64(), "q": q.Int64()}
		}
		panic("bad kind")
	}
}
