package main

import (
	"bytes"
	"context"
	"encoding/binary"
	"errors"
	"io"
	"math/rand"
	"net"
	"sort"
	"sync"
	"time"

	"github.com/gotd/td/bin"
	"github.com/gotd/td/proto/codec"
	"github.com/gotd/td/transport"

	"verifharness/internal/tr"
)

func newCodec(name string) codec.Codec {
	switch name {
	case "abridged":
		return codec.Abridged{}
	case "intermediate":
		return codec.Intermediate{}
	case "padded":
		return codec.PaddedIntermediate{}
	case "full":
		return &codec.Full{}
	}
	panic("codec " + name)
}

func hdrLen(name string, l int) int {
	switch name {
	case "abridged":
		if l/4 < 127 {
			return 1
		}
		return 4
	case "full":
		return 8
	}
	return 4
}

// chunkReader returns the stream cut at the given offsets (sorted), one chunk per Read call at most.
type chunkReader struct {
	data []byte
	cuts []int
	pos  int
}

func (c *chunkReader) Read(p []byte) (int, error) {
	if c.pos >= len(c.data) {
		return 0, io.EOF
	}
	end := len(c.data)
	for _, k := range c.cuts {
		if k > c.pos {
			end = k
			break
		}
	}
	n := copy(p, c.data[c.pos:end])
	c.pos += n
	return n, nil
}

const allocLimit = 1<<24 + 1<<20 // frame limit plus allocator size-class slack

func codecRoundtrip(in tr.M, rng *rand.Rand) tr.M {
	name := tr.Str(in["codec"])
	w := newCodec(name)
	var stream bytes.Buffer
	var payloads [][]byte
	var starts, totals []int
	for _, l := range tr.List(in["frames"]) {
		p := rbytes(rng, tr.Int(l))
		payloads = append(payloads, p)
		starts = append(starts, stream.Len())
		if err := w.Write(&stream, &bin.Buffer{Buf: append([]byte(nil), p...)}); err != nil {
			return tr.M{"err": true, "werr": err.Error()}
		}
		totals = append(totals, stream.Len()-starts[len(starts)-1])
	}
	data := stream.Bytes()
	ch := tr.Map(in["chunking"])
	var cuts []int
	pos := func(k int, at string) int {
		s, h, l := starts[k], hdrLen(name, len(payloads[k])), len(payloads[k])
		switch at {
		case "h1":
			return s + 1
		case "h2":
			return s + 2
		case "h3":
			return s + 3
		case "hdr":
			return s + h
		case "hdr+1":
			return s + h + 1
		case "mid":
			return s + h + l/2
		case "end-1":
			return s + totals[k] - 1
		default:
			return s + totals[k]
		}
	}
	switch tr.Str(ch["kind"]) {
	case "whole":
	case "fixed":
		n := tr.Int(ch["n"])
		for k := n; k < len(data); k += n {
			cuts = append(cuts, k)
		}
	case "cut":
		cuts = []int{pos(tr.Int(ch["frame"])-1, tr.Str(ch["at"]))}
	case "allcuts":
		for k := range payloads {
			for _, at := range []string{"h1", "h2", "h3", "hdr", "hdr+1", "mid", "end-1", "end"} {
				cuts = append(cuts, pos(k, at))
			}
		}
		sort.Ints(cuts)
	}
	r := newCodec(name)
	cr := &chunkReader{data: data, cuts: cuts}
	equal := true
	count := 0
	for range payloads {
		var b bin.Buffer
		if err := r.Read(cr, &b); err != nil {
			return tr.M{"err": true, "rerr": err.Error(), "count": count, "frames_equal": false}
		}
		if !bytes.Equal(b.Buf, payloads[count]) {
			equal = false
		}
		count++
	}
	// nothing must be left
	var b bin.Buffer
	extra := r.Read(cr, &b) == nil
	return tr.M{"err": false, "frames_equal": equal && !extra, "count": count}
}

func codecErrcode(in tr.M, rng *rand.Rand) tr.M {
	name := tr.Str(in["codec"])
	w, r := newCodec(name), newCodec(name)
	var stream bytes.Buffer
	before := tr.Int(in["before"])
	for k := 0; k < before; k++ {
		_ = w.Write(&stream, &bin.Buffer{Buf: rbytes(rng, 16)})
	}
	var code bin.Buffer
	code.PutInt32(int32(-tr.Int(in["code"])))
	if err := w.Write(&stream, &code); err != nil {
		return tr.M{"werr": err.Error()}
	}
	got := 0
	for {
		var b bin.Buffer
		err := r.Read(&stream, &b)
		if err == nil {
			got++
			continue
		}
		var pe *codec.ProtocolErr
		if errors.As(err, &pe) {
			return tr.M{"errcode": int(pe.Code), "frames_before": got}
		}
		return tr.M{"errcode": 0, "frames_before": got, "rerr": err.Error()}
	}
}

type oneListener struct {
	c    chan net.Conn
	done chan struct{}
}

func (l *oneListener) Accept() (net.Conn, error) {
	select {
	case c := <-l.c:
		return c, nil
	case <-l.done:
		return nil, net.ErrClosed
	}
}
func (l *oneListener) Close() error   { return nil }
func (l *oneListener) Addr() net.Addr { return &net.TCPAddr{} }

func codecTransport(in tr.M, rng *rand.Rand) tr.M {
	var proto transport.Protocol
	switch tr.Str(in["proto"]) {
	case "abridged":
		proto = transport.Abridged
	case "intermediate":
		proto = transport.Intermediate
	case "padded":
		proto = transport.PaddedIntermediate
	case "full":
		proto = transport.Full
	}
	cc, sc := net.Pipe()
	defer cc.Close()
	defer sc.Close()
	ln := &oneListener{c: make(chan net.Conn, 1), done: make(chan struct{})}
	defer close(ln.done)
	ln.c <- sc
	listener := transport.Listen(ln)
	type acc struct {
		c   transport.Conn
		err error
	}
	accCh := make(chan acc, 1)
	go func() {
		c, err := listener.Accept()
		accCh <- acc{c, err}
	}()
	client, err := proto.Handshake(cc)
	if err != nil {
		return tr.M{"detected": false, "herr": err.Error()}
	}
	senders, each := tr.Int(in["senders"]), tr.Int(in["each"])
	// generous: only a real hang runs into it, never machine load
	ctx, cancel := context.WithTimeout(context.Background(), 120*time.Second)
	defer cancel()
	var wg sync.WaitGroup
	sizes := []int{8, 504, 508, 1024, 12}
	for s := 0; s < senders; s++ {
		wg.Add(1)
		go func(s int) {
			defer wg.Done()
			for k := 0; k < each; k++ {
				p := make([]byte, sizes[(s+k)%len(sizes)])
				for i := range p {
					p[i] = byte(17*s + k + 1)
				}
				binary.LittleEndian.PutUint32(p[0:], uint32(s))
				binary.LittleEndian.PutUint32(p[4:], uint32(k))
				_ = client.Send(ctx, &bin.Buffer{Buf: p})
			}
		}(s)
	}
	var server transport.Conn
	select {
	case a := <-accCh:
		if a.err != nil {
			return tr.M{"detected": false, "aerr": a.err.Error()}
		}
		server = a.c
	case <-ctx.Done():
		return tr.M{"detected": false, "aerr": "accept timeout"}
	}
	next := make([]int, senders)
	ok, order := true, true
	for n := 0; n < senders*each; n++ {
		var b bin.Buffer
		if err := server.Recv(ctx, &b); err != nil {
			return tr.M{"detected": true, "all_received": false, "rerr": err.Error()}
		}
		if len(b.Buf) < 8 {
			ok = false
			continue
		}
		s, k := int(binary.LittleEndian.Uint32(b.Buf[0:])), int(binary.LittleEndian.Uint32(b.Buf[4:]))
		if s < 0 || s >= senders || len(b.Buf) != sizes[(s+k)%len(sizes)] {
			ok = false
			continue
		}
		for i := 8; i < len(b.Buf); i++ {
			if b.Buf[i] != byte(17*s+k+1) {
				ok = false
			}
		}
		if k != next[s] {
			order = false
		}
		next[s] = k + 1
	}
	wg.Wait()
	return tr.M{"detected": true, "all_received": ok, "per_sender_order": order}
}

// contReader yields prefix, then `more` bytes of filler, then EOF.
type contReader struct {
	prefix []byte
	more   int
	rng    *rand.Rand
}

func (c *contReader) Read(p []byte) (int, error) {
	if len(c.prefix) > 0 {
		n := copy(p, c.prefix)
		c.prefix = c.prefix[n:]
		return n, nil
	}
	if c.more <= 0 {
		return 0, io.EOF
	}
	n := len(p)
	if n > c.more {
		n = c.more
	}
	for i := 0; i < n; i++ {
		p[i] = 0
	}
	c.more -= n
	return n, nil
}

func readOutcome(name string, r io.Reader) tr.M {
	var b bin.Buffer
	err := newCodec(name).Read(r, &b)
	got := tr.M{"nopanic": true, "alloc_ok": cap(b.Buf) <= allocLimit, "cap": cap(b.Buf)}
	if err != nil {
		got["outcome"] = "error"
	} else {
		got["outcome"] = "frame"
	}
	return got
}

func contBytes(cont string, need int, rng *rand.Rand) int {
	switch cont {
	case "eof":
		return 0
	case "short":
		if need <= 1 {
			return 0
		}
		return 1 + rng.Intn(minInt(need-1, 64))
	}
	return need + 16
}

func minInt(a, b int) int {
	if a < b {
		return a
	}
	return b
}

func init() {
	modules["codec"] = func(c tr.M, rng *rand.Rand) tr.M {
		in := tr.Map(c["in"])
		switch tr.Str(in["kind"]) {
		case "roundtrip":
			return codecRoundtrip(in, rng)
		case "errcode":
			return codecErrcode(in, rng)
		case "transport":
			return codecTransport(in, rng)
		case "prefix":
			n := tr.Int(in["n"])
			var p [4]byte
			binary.LittleEndian.PutUint32(p[:], uint32(int32(n)))
			need := n
			if need < 0 || need > 1<<25 {
				need = 64
			}
			return readOutcome(tr.Str(in["codec"]), &contReader{prefix: p[:], more: contBytes(tr.Str(in["cont"]), need, rng), rng: rng})
		case "aprefix":
			first, n := tr.Int(in["first"]), tr.Int(in["n"])
			p := []byte{byte(first)}
			words := first
			if first >= 127 {
				p = append(p, byte(n), byte(n>>8), byte(n>>16))
				words = n
			}
			return readOutcome("abridged", &contReader{prefix: p, more: contBytes(tr.Str(in["cont"]), words*4, rng), rng: rng})
		case "mutated":
			name := tr.Str(in["codec"])
			var stream bytes.Buffer
			w := newCodec(name)
			for _, l := range tr.List(in["frames"]) {
				_ = w.Write(&stream, &bin.Buffer{Buf: rbytes(rng, tr.Int(l))})
			}
			data := stream.Bytes()
			switch tr.Str(in["mut"]) {
			case "flip":
				data[rng.Intn(minInt(len(data), 12))] ^= byte(1 << uint(rng.Intn(8)))
			case "truncate":
				data = data[:rng.Intn(len(data))]
			case "extend":
				data = append(data, rbytes(rng, 1+rng.Intn(7))...)
			case "zeros":
				for i := 0; i < minInt(len(data), 8); i++ {
					data[i] = 0
				}
			case "ones":
				for i := 0; i < minInt(len(data), 8); i++ {
					data[i] = 0xff
				}
			case "random":
				copy(data, rbytes(rng, minInt(len(data), 12)))
			}
			rd := bytes.NewReader(data)
			rc := newCodec(name)
			ok := true
			for k := 0; k < 4; k++ {
				var b bin.Buffer
				err := rc.Read(rd, &b)
				if cap(b.Buf) > allocLimit {
					ok = false
				}
				if err != nil {
					break
				}
			}
			return tr.M{"nopanic": true, "alloc_ok": ok}
		}
		panic("bad kind")
	}
}
