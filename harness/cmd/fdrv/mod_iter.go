package main

import (
	"context"
	"math/rand"

	"github.com/gotd/td/telegram/query/dialogs"
	"github.com/gotd/td/telegram/query/messages"
	"github.com/gotd/td/tg"

	"verifharness/internal/tr"
)

// item k (1-based, server order) has id idOf(k, n): strictly decreasing with gaps
func idOf(k, n int) int { return 3*(n-k) + 2 }

func pageOf(n, pos, limit int, kind string) []int {
	var r []int
	switch kind {
	case "slice", "channel":
		for k := pos + 1; k <= n && len(r) < limit; k++ {
			r = append(r, k)
		}
	case "full":
		for k := pos + 1; k <= n; k++ {
			r = append(r, k)
		}
	case "fullnooffset":
		for k := 1; k <= n; k++ {
			r = append(r, k)
		}
	}
	return r
}

func init() {
	modules["iter"] = func(c tr.M, rng *rand.Rand) tr.M {
		in := tr.Map(c["in"])
		n, limit, kind := tr.Int(in["n"]), tr.Int(in["limit"]), tr.Str(in["kind"])
		ctx := context.Background()
		budget := 4*n + 12
		var yield []any
		requests := 0
		posOfID := func(id int) int {
			if id == 0 {
				return 0
			}
			return n - (id-2)/3
		}
		switch tr.Str(in["it"]) {
		case "messages":
			q := messages.QueryFunc(func(ctx context.Context, req messages.Request) (tg.MessagesMessagesClass, error) {
				requests++
				var msgs []tg.MessageClass
				for _, k := range pageOf(n, posOfID(req.OffsetID), req.Limit, kind) {
					msgs = append(msgs, &tg.Message{ID: idOf(k, n), PeerID: &tg.PeerUser{UserID: 10}, Date: 1000 + idOf(k, n)})
				}
				// the server may list a page in any order
				rng.Shuffle(len(msgs), func(i, j int) { msgs[i], msgs[j] = msgs[j], msgs[i] })
				users := []tg.UserClass{&tg.User{ID: 10, AccessHash: 5}}
				switch kind {
				case "slice":
					return &tg.MessagesMessagesSlice{Messages: msgs, Count: n, Users: users}, nil
				case "channel":
					return &tg.MessagesChannelMessages{Messages: msgs, Count: n, Users: users}, nil
				}
				return &tg.MessagesMessages{Messages: msgs, Users: users}, nil
			})
			it := messages.NewIterator(q, limit)
			for it.Next(ctx) {
				yield = append(yield, posOfID(it.Value().Msg.GetID()))
				if len(yield) > budget {
					return tr.M{"yield": yield, "terminated": false, "requests": requests}
				}
			}
			return tr.M{"yield": orEmpty(yield), "terminated": true, "requests": requests, "err": it.Err() != nil}
		case "dialogs":
			q := dialogs.QueryFunc(func(ctx context.Context, req dialogs.Request) (tg.MessagesDialogsClass, error) {
				requests++
				pos := 0
				if p, ok := req.OffsetPeer.(*tg.InputPeerUser); ok {
					pos = int(p.UserID) - 100
				}
				var ds []tg.DialogClass
				var msgs []tg.MessageClass
				var users []tg.UserClass
				for _, k := range pageOf(n, pos, req.Limit, kind) {
					uid := int64(100 + k)
					ds = append(ds, &tg.Dialog{Peer: &tg.PeerUser{UserID: uid}, TopMessage: idOf(k, n)})
					msgs = append(msgs, &tg.Message{ID: idOf(k, n), PeerID: &tg.PeerUser{UserID: uid}, Date: 1000 + idOf(k, n)})
					users = append(users, &tg.User{ID: uid, AccessHash: uid * 7})
				}
				if kind == "slice" {
					return &tg.MessagesDialogsSlice{Dialogs: ds, Messages: msgs, Users: users, Count: n}, nil
				}
				return &tg.MessagesDialogs{Dialogs: ds, Messages: msgs, Users: users}, nil
			})
			it := dialogs.NewIterator(q, limit)
			for it.Next(ctx) {
				d := it.Value().Dialog.(*tg.Dialog)
				yield = append(yield, int(d.Peer.(*tg.PeerUser).UserID)-100)
				if len(yield) > budget {
					return tr.M{"yield": yield, "terminated": false, "requests": requests}
				}
			}
			return tr.M{"yield": orEmpty(yield), "terminated": true, "requests": requests, "err": it.Err() != nil}
		}
		panic("bad iterator")
	}
}

func orEmpty(a []any) []any {
	if a == nil {
		return []any{}
	}
	return a
}
