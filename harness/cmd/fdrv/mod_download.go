package main

import (
	"bytes"
	"context"
	"crypto/aes"
	"crypto/cipher"
	"crypto/sha256"
	"encoding/binary"
	"io"
	"math/rand"
	"reflect"
	"strconv"
	"strings"
	"sync"
	"time"

	"github.com/gotd/td/telegram/downloader"
	"github.com/gotd/td/tg"
	"github.com/gotd/td/tgerr"

	"verifharness/internal/tr"
)

const dlWindow = 128 * 1024

type dlMock struct {
	mu     sync.Mutex
	file   []byte
	part   int
	faults map[int][]string
	attack string
	base   int // attacked position (start of the attacked part), -1 = none
	cdnOn  bool
	key    []byte
	iv     []byte
	token  []byte
	event  string
	evAt   int
	evDone bool
	nCDN   int
	nData  int
	// observations for the stalled-writer schedule
	sawLast   chan struct{} // the request that contains the last byte of the file was served
	sawBeyond chan struct{} // a request at or beyond the end of the file was served
	lastOnce  sync.Once
	beyOnce   sync.Once
}

// view returns what the (possibly adversarial) server serves for [off, off+limit).
func (m *dlMock) view(off int64, limit int) []byte {
	size := int64(len(m.file))
	if off >= size {
		if m.attack == "extend" && m.base >= 0 && off == size {
			return bytes.Repeat([]byte{0xEE}, minInt(32, limit))
		}
		return nil
	}
	end := off + int64(limit)
	if end > size {
		end = size
	}
	out := append([]byte(nil), m.file[off:end]...)
	if m.base < 0 {
		return out
	}
	b := int64(m.base)
	pe := b + int64(m.part)
	if pe > size {
		pe = size
	}
	touch := func(pos int64, f func(i int)) {
		if pos >= off && pos < end {
			f(int(pos - off))
		}
	}
	switch m.attack {
	case "flip_first":
		touch(b, func(i int) { out[i] ^= 0x01 })
	case "flip_last":
		touch(pe-1, func(i int) { out[i] ^= 0x80 })
	case "zero":
		for p := b; p < pe; p++ {
			touch(p, func(i int) { out[i] = ^m.file[p] })
		}
	case "swap":
		for j := int64(0); j < 16 && b+31-j < size; j++ {
			x, y := b+j, b+31-j
			touch(x, func(i int) { out[i] = m.file[y] })
			touch(y, func(i int) { out[i] = m.file[x] })
		}
	case "truncate":
		cut := b + 5
		if cut < size && cut > off && cut < end {
			out = out[:cut-off]
		}
	case "extend_full":
		// the answer that crosses the end of the file is padded up to the requested length, so it does not look like a
		// final short answer; whole hash windows are served honestly (a selective adversary)
		if end == size && off+int64(limit) > size && limit < dlWindow {
			out = append(out, bytes.Repeat([]byte{0xEE}, int(off+int64(limit)-size))...)
		}
	case "extend":
		if end == size && off+int64(limit) > size {
			out = append(out, bytes.Repeat([]byte{0xEE}, minInt(32, int(off+int64(limit)-size)))...)
		}
	}
	return out
}

func (m *dlMock) hashesFrom(off int64) []tg.FileHash {
	var hs []tg.FileHash
	size := int64(len(m.file))
	off -= off % dlWindow
	for k := 0; k < 2 && off < size; k++ {
		end := off + dlWindow
		if end > size {
			end = size
		}
		h := sha256.Sum256(m.file[off:end])
		hs = append(hs, tg.FileHash{Offset: off, Limit: dlWindow, Hash: h[:]})
		off += dlWindow
	}
	return hs
}

func (m *dlMock) UploadGetFile(ctx context.Context, r *tg.UploadGetFileRequest) (tg.UploadFileClass, error) {
	m.mu.Lock()
	defer m.mu.Unlock()
	if m.cdnOn && r.GetCDNSupported() {
		return &tg.UploadFileCDNRedirect{DCID: 203, FileToken: m.token, EncryptionKey: m.key, EncryptionIv: m.iv, FileHashes: m.hashesFrom(0)}, nil
	}
	pi := int(r.Offset) / m.part
	if f := m.faults[pi]; len(f) > 0 {
		m.faults[pi] = f[1:]
		if f[0] == "flood" {
			return nil, tgerr.New(420, "FLOOD_WAIT_0")
		}
		return nil, tgerr.New(500, tg.ErrTimeout)
	}
	m.nData++
	if m.sawLast != nil {
		size := int64(len(m.file))
		if r.Offset >= size {
			m.beyOnce.Do(func() { close(m.sawBeyond) })
		} else if r.Offset+int64(r.Limit) >= size {
			m.lastOnce.Do(func() { close(m.sawLast) })
		}
	}
	return &tg.UploadFile{Type: &tg.StorageFileJpeg{}, Bytes: m.view(r.Offset, r.Limit)}, nil
}
func (m *dlMock) UploadGetFileHashes(ctx context.Context, r *tg.UploadGetFileHashesRequest) ([]tg.FileHash, error) {
	if r.Offset >= int64(len(m.file)) {
		return nil, nil
	}
	return m.hashesFrom(r.Offset), nil
}
func (m *dlMock) UploadReuploadCDNFile(ctx context.Context, r *tg.UploadReuploadCDNFileRequest) ([]tg.FileHash, error) {
	return m.hashesFrom(0), nil
}
func (m *dlMock) UploadGetCDNFileHashes(ctx context.Context, r *tg.UploadGetCDNFileHashesRequest) ([]tg.FileHash, error) {
	if r.Offset >= int64(len(m.file)) {
		return nil, nil
	}
	return m.hashesFrom(r.Offset), nil
}
func (m *dlMock) UploadGetWebFile(ctx context.Context, r *tg.UploadGetWebFileRequest) (*tg.UploadWebFile, error) {
	return nil, io.ErrUnexpectedEOF
}

type dlCDN struct{ m *dlMock }

func (c dlCDN) UploadGetCDNFile(ctx context.Context, r *tg.UploadGetCDNFileRequest) (tg.UploadCDNFileClass, error) {
	m := c.m
	m.mu.Lock()
	defer m.mu.Unlock()
	m.nCDN++
	if !m.evDone && m.event != "none" && m.nCDN == m.evAt {
		m.evDone = true
		switch m.event {
		case "reupload":
			return &tg.UploadCDNFileReuploadNeeded{RequestToken: []byte("rq")}, nil
		case "token_invalid_direct":
			// master answers the refresh with the file itself instead of a new redirect
			m.cdnOn = false
		}
		return nil, tgerr.New(400, "FILE_TOKEN_INVALID")
	}
	plain := m.view(r.Offset, r.Limit)
	blk, _ := aes.NewCipher(m.key)
	iv := append([]byte(nil), m.iv...)
	binary.BigEndian.PutUint32(iv[len(iv)-4:], uint32(r.Offset/16))
	enc := make([]byte, len(plain))
	cipher.NewCTR(blk, iv).XORKeyStream(enc, plain)
	return &tg.UploadCDNFile{Bytes: enc}, nil
}

type nopCloser struct{}

func (nopCloser) Close() error { return nil }

func (m *dlMock) CDN(ctx context.Context, dc int, max int64) (downloader.CDN, io.Closer, error) {
	return dlCDN{m}, nopCloser{}, nil
}

// recWriter records WriteAt calls.
type recWriter struct {
	mu   sync.Mutex
	buf  []byte
	seen map[int64]int
	dups int
	bad  bool
	ref  []byte
	// stalled-writer schedule: the first write waits until the last part was fetched (every worker is then blocked
	// behind the full queue), the second one (it frees exactly one queue slot) until the freed worker's next request
	// has been served or a bounded time has passed
	stall *dlMock
	nw    int
}

func (w *recWriter) check(p []byte, off int64) {
	for i := range p {
		if off+int64(i) >= int64(len(w.ref)) || p[i] != w.ref[off+int64(i)] {
			w.bad = true
			return
		}
	}
}
func (w *recWriter) WriteAt(p []byte, off int64) (int, error) {
	if w.stall != nil {
		w.mu.Lock()
		w.nw++
		n := w.nw
		w.mu.Unlock()
		switch n {
		case 1:
			select {
			case <-w.stall.sawLast:
				time.Sleep(30 * time.Millisecond)
			case <-time.After(3 * time.Second):
			}
		case 2:
			select {
			case <-w.stall.sawBeyond:
				time.Sleep(30 * time.Millisecond)
			case <-time.After(400 * time.Millisecond):
			}
		}
	}
	w.mu.Lock()
	defer w.mu.Unlock()
	if need := int(off) + len(p); need > len(w.buf) {
		w.buf = append(w.buf, make([]byte, need-len(w.buf))...)
	}
	copy(w.buf[off:], p)
	w.seen[off]++
	if w.seen[off] > 1 {
		w.dups++
	}
	w.check(p, off)
	return len(p), nil
}
func (w *recWriter) Write(p []byte) (int, error) {
	w.mu.Lock()
	defer w.mu.Unlock()
	w.check(p, int64(len(w.buf)))
	w.buf = append(w.buf, p...)
	return len(p), nil
}

func init() {
	modules["download"] = func(c tr.M, rng *rand.Rand) tr.M {
		in := tr.Map(c["in"])
		kind := tr.Str(in["kind"])
		if kind == "plan" {
			pl, err := downloader.VerifCDNRequestPlan(int64(tr.Int(in["offset"])), tr.Int(in["limit"]))
			if err != nil {
				return tr.M{"ok": false}
			}
			out := make([]any, 0, len(pl))
			for _, r := range pl {
				out = append(out, []any{r[0], r[1]})
			}
			return tr.M{"ok": true, "plan": out}
		}
		size := tr.Int(in["size"])
		m := &dlMock{file: rbytes(rng, size), faults: map[int][]string{}, attack: "none", base: -1, event: "none",
			key: rbytes(rng, 32), iv: rbytes(rng, 16), token: []byte("tok")}
		m.part = tr.Int(in["part"])
		if kind == "verify" {
			m.part = dlWindow
		}
		for _, f := range tr.List(in["faults"]) {
			fm := tr.Map(f)
			pi, k := tr.Int(fm["part"]), tr.Str(fm["kind"])
			if k == "timeout_last" {
				pi, k = size/m.part, "timeout"
			}
			m.faults[pi] = append(m.faults[pi], k)
		}
		if a := tr.Str(in["attack"]); a != "" && a != "none" {
			m.attack = a
			at := tr.Int(in["at"])
			if at == 99 {
				at = (size - 1) / m.part
			}
			m.base = at * m.part
			if m.base >= size {
				m.base = ((size - 1) / m.part) * m.part
			}
		}
		m.evAt = 2
		if v := tr.Str(in["event"]); v != "" {
			m.event = v
			if i := strings.IndexByte(v, '@'); i >= 0 {
				m.event = v[:i]
				m.evAt, _ = strconv.Atoi(v[i+1:])
			}
		}
		d := downloader.NewDownloader().WithPartSize(m.part)
		if kind == "cdn" {
			m.cdnOn = true
			d = d.WithAllowCDN(true)
		}
		b := d.Download(m, &tg.InputDocumentFileLocation{ID: 1}).WithThreads(tr.Int(in["threads"]))
		if kind == "verify" {
			b = b.WithVerify(true)
		}
		w := &recWriter{seen: map[int64]int{}, ref: m.file}
		if tr.Str(in["writer"]) == "stall" {
			m.sawLast, m.sawBeyond = make(chan struct{}), make(chan struct{})
			w.stall = m
		}
		var typ tg.StorageFileTypeClass
		var err error
		mode := tr.Str(in["mode"])
		if mode == "" {
			mode = "parallel"
			if tr.Int(in["threads"]) == 1 {
				mode = "stream"
			}
		}
		if mode == "stream" {
			typ, err = b.Stream(context.Background(), w)
		} else {
			typ, err = b.Parallel(context.Background(), w)
		}
		res := tr.M{"err": err != nil, "delivered_bad": w.bad}
		if err == nil {
			res["equal"] = bytes.Equal(w.buf, m.file)
			res["length"] = len(w.buf)
			res["duplicates"] = w.dups
			res["type_ok"] = typ != nil && reflect.TypeOf(typ) == reflect.TypeOf(&tg.StorageFileJpeg{})
		} else {
			res["errtext"] = err.Error()
		}
		return res
	}
}
