package main

import (
	"context"
	"encoding/json"
	"math/rand"

	"github.com/gotd/td/crypto"
	"github.com/gotd/td/mtproto"
	"github.com/gotd/td/session"
	"github.com/gotd/td/telegram"
	"github.com/gotd/td/tg"

	"verifharness/internal/tr"
)

// keyN is a deterministic auth key number n (distinct numbers give distinct keys).
func keyN(n int) crypto.AuthKey {
	var k crypto.Key
	r := rand.New(rand.NewSource(int64(1000 + n)))
	r.Read(k[:])
	return k.WithID()
}

func keyNumber(id []byte) int {
	for n := 1; n <= 9; n++ {
		k := keyN(n)
		if string(k.ID[:]) == string(id) {
			return n
		}
	}
	return -1
}

func readSaved(st *session.StorageMemory) tr.M {
	l := session.Loader{Storage: st}
	d, err := l.Load(context.Background())
	if err != nil {
		return tr.M{"dc": -1, "key": 0, "salt": 0}
	}
	kn := keyNumber(d.AuthKeyID)
	// the stored key bytes must belong to the stored id
	if kn > 0 {
		k := keyN(kn)
		if string(k.Value[:]) != string(d.AuthKey) {
			kn = -2
		}
	}
	return tr.M{"dc": d.DC, "key": kn, "salt": int(d.Salt)}
}

// racingStorage runs a callback inside the storage read that saveSession performs (a *_MIGRATE error handled by
// another goroutine while the session is being saved).
type racingStorage struct {
	*session.StorageMemory
	armed  bool
	onLoad func()
}

func (r *racingStorage) LoadSession(ctx context.Context) ([]byte, error) {
	if r.armed {
		r.armed = false
		r.onLoad()
	}
	return r.StorageMemory.LoadSession(ctx)
}

func init() {
	modules["sesssave"] = func(c tr.M, rng *rand.Rand) tr.M {
		in := tr.Map(c["in"])
		st := &session.StorageMemory{}
		rs := &racingStorage{StorageMemory: st}
		cl := telegram.NewClient(1, "hash", telegram.Options{SessionStorage: rs, DC: 2, NoUpdates: true})
		rs.onLoad = func() { cl.VerifMigrate(4) }
		switch tr.Str(in["kind"]) {
		case "save":
			var out []any
			race := -1
			if v, ok := in["race"]; ok {
				race = tr.Int(v)
			}
			for ni, n := range tr.List(in["notes"]) {
				rs.armed = ni+1 == race
				m := tr.Map(n)
				s := mtproto.Session{ID: rng.Int63(), Key: keyN(tr.Int(m["key"])), Salt: int64(tr.Int(m["salt"]))}
				if p := tr.Int(m["perm"]); p != 0 {
					s.PermKey = keyN(p)
				}
				cfg := tg.Config{ThisDC: tr.Int(m["dc"])}
				var err error
				if tr.Str(m["kind"]) == "cdn" {
					err = cl.VerifOnCDNSession(cfg, s)
				} else {
					err = cl.VerifOnSession(cfg, s)
				}
				if err != nil {
					return tr.M{"err": err.Error()}
				}
				out = append(out, readSaved(st))
			}
			return tr.M{"saved": out}
		case "restore":
			k, other := keyN(1), keyN(2)
			d := session.Data{DC: 2, Addr: "1.2.3.4:443", AuthKey: append([]byte(nil), k.Value[:]...), AuthKeyID: append([]byte(nil), k.ID[:]...), Salt: 55}
			switch tr.Str(in["how"]) {
			case "key_byte":
				d.AuthKey[rng.Intn(256)] ^= 1 << uint(rng.Intn(8))
			case "key_id_byte":
				d.AuthKeyID[rng.Intn(8)] ^= 1 << uint(rng.Intn(8))
			case "key_zero":
				d.AuthKey = make([]byte, 256)
			case "id_zero":
				d.AuthKeyID = make([]byte, 8)
			case "key_short":
				d.AuthKey = d.AuthKey[:128]
			case "swap_key_other":
				d.AuthKey = append([]byte(nil), other.Value[:]...)
			}
			raw, _ := json.Marshal(struct {
				Version int
				Data    session.Data
			}{Version: 1, Data: d})
			_ = st.StoreSession(context.Background(), raw)
			err := cl.VerifRestoreConnection(context.Background())
			return tr.M{"ok": err == nil}
		}
		panic("bad kind")
	}
}
