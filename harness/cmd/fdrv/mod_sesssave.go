package main

import (
	"context"
	"encoding/json"
	"math/rand"
	"sync"
	"time"

	"github.com/gotd/td/bin"

	"github.com/gotd/td/crypto"
	"github.com/gotd/td/mtproto"
	"github.com/gotd/td/session"
	"github.com/gotd/td/telegram"
	"github.com/gotd/td/tg"

	"verifharness/internal/tr"
)

// keyN is a deterministic auth key number n (distinct numbers give distinct keys).
func keyN(n int) crypto.AuthKey {
	var k crypto.Key
	r := rand.New(rand.NewSource(int64(1000 + n)))
	r.Read(k[:])
	return k.WithID()
}

func keyNumber(id []byte) int {
	for n := 1; n <= 9; n++ {
		k := keyN(n)
		if string(k.ID[:]) == string(id) {
			return n
		}
	}
	return -1
}

func readSaved(st *session.StorageMemory) tr.M {
	l := session.Loader{Storage: st}
	d, err := l.Load(context.Background())
	if err != nil {
		return tr.M{"dc": -1, "key": 0, "salt": 0}
	}
	kn := keyNumber(d.AuthKeyID)
	// the stored key bytes must belong to the stored id
	if kn > 0 {
		k := keyN(kn)
		if string(k.Value[:]) != string(d.AuthKey) {
			kn = -2
		}
	}
	return tr.M{"dc": d.DC, "key": kn, "salt": int(d.Salt)}
}

// racingStorage runs a callback inside the storage read that saveSession performs (a *_MIGRATE error handled by
// another goroutine while the session is being saved).
type racingStorage struct {
	*session.StorageMemory
	armed  bool
	onLoad func()
}

func (r *racingStorage) LoadSession(ctx context.Context) ([]byte, error) {
	if r.armed {
		r.armed = false
		r.onLoad()
	}
	return r.StorageMemory.LoadSession(ctx)
}

// fakeProto is a scripted protocol connection for a manager connection: Run calls the init function and stays
// up; the initConnection(help.getConfig) call is answered with the DC's config once cfgGate is closed.
type fakeProto struct {
	dc      int
	cfgGate chan struct{}
	inited  chan struct{}
	askOnce sync.Once
	askCh   chan struct{}
}

func (f *fakeProto) asked() <-chan struct{} { return f.askCh }

func (f *fakeProto) Invoke(ctx context.Context, input bin.Encoder, output bin.Decoder) error {
	f.askOnce.Do(func() { close(f.askCh) })
	select {
	case <-f.cfgGate:
	case <-ctx.Done():
		return ctx.Err()
	}
	cfg := &tg.Config{ThisDC: f.dc, DCOptions: []tg.DCOption{{ID: f.dc, IPAddress: "10.0.0.1", Port: 443}}, DCTxtDomainName: "x", MeURLPrefix: "m"}
	b := &bin.Buffer{}
	if err := cfg.Encode(b); err != nil {
		return err
	}
	return output.Decode(b)
}

func (f *fakeProto) Run(ctx context.Context, fn func(ctx context.Context) error) error {
	err := fn(ctx)
	close(f.inited) // init (config, setup, flush of buffered notifications) is over
	if err != nil {
		return err
	}
	<-ctx.Done()
	return ctx.Err()
}
func (f *fakeProto) Ping(ctx context.Context) error { return nil }

func init() {
	modules["sesssave"] = func(c tr.M, rng *rand.Rand) tr.M {
		in := tr.Map(c["in"])
		st := &session.StorageMemory{}
		rs := &racingStorage{StorageMemory: st}
		cl := telegram.NewClient(1, "hash", telegram.Options{SessionStorage: rs, DC: 2, NoUpdates: true})
		rs.onLoad = func() { cl.VerifMigrate(4) }
		switch tr.Str(in["kind"]) {
		case "save":
			var out []any
			race := -1
			if v, ok := in["race"]; ok {
				race = tr.Int(v)
			}
			for ni, n := range tr.List(in["notes"]) {
				rs.armed = ni+1 == race
				m := tr.Map(n)
				s := mtproto.Session{ID: rng.Int63(), Key: keyN(tr.Int(m["key"])), Salt: int64(tr.Int(m["salt"]))}
				if p := tr.Int(m["perm"]); p != 0 {
					s.PermKey = keyN(p)
				}
				cfg := tg.Config{ThisDC: tr.Int(m["dc"])}
				var err error
				if tr.Str(m["kind"]) == "cdn" {
					err = cl.VerifOnCDNSession(cfg, s)
				} else {
					err = cl.VerifOnSession(cfg, s)
				}
				if err != nil {
					return tr.M{"err": err.Error()}
				}
				out = append(out, readSaved(st))
			}
			return tr.M{"saved": out}
		case "manager":
			// The notification travels through the real manager connection (buffering until initConnection's config
			// is known, setup callback, flush) over a scripted protocol connection.  phase = when it arrives:
			//   pre_config: before the help.getConfig answer; in_setup: after it, while the setup callback runs;
			//   post_init: after the connection became ready.
			dc := tr.Int(in["dc"])
			phase := tr.Str(in["phase"])
			fp := &fakeProto{dc: dc, cfgGate: make(chan struct{}), inited: make(chan struct{}), askCh: make(chan struct{})}
			setupGate := make(chan struct{})
			inSetup := make(chan struct{})
			var setup func(ctx context.Context, invoker tg.Invoker) error
			if tr.Bool(in["setup"]) {
				setup = func(ctx context.Context, invoker tg.Invoker) error {
					close(inSetup)
					select {
					case <-setupGate:
					case <-ctx.Done():
					}
					return nil
				}
			}
			// a primary session of DC 2 exists already (key 9)
			if err := cl.VerifOnSession(tg.Config{ThisDC: 2}, mtproto.Session{ID: 1, Key: keyN(9), Salt: 109}); err != nil {
				return tr.M{"err": err.Error()}
			}
			conn := cl.VerifManagerConn(fp, dc, tr.Str(in["conn"]) == "cdn", setup)
			ctx, cancel := context.WithCancel(context.Background())
			defer cancel()
			runDone := make(chan error, 1)
			go func() { runDone <- conn.Run(ctx) }()
			note := mtproto.Session{ID: rng.Int63(), Key: keyN(tr.Int(in["key"])), Salt: int64(100 + tr.Int(in["key"]))}
			deliver := func() error { return conn.OnSession(note) }
			var derr error
			timeout := time.After(10 * time.Second)
			step := func(ch <-chan struct{}) bool {
				select {
				case <-ch:
					return true
				case <-timeout:
					return false
				}
			}
			isCDN := tr.Str(in["conn"]) == "cdn"
			switch phase {
			case "pre_config":
				if !isCDN && !step(fp.asked()) {
					return tr.M{"err": "init never asked for the config"}
				}
				derr = deliver()
				close(fp.cfgGate)
				close(setupGate)
			case "in_setup":
				close(fp.cfgGate)
				if setup != nil {
					if !step(inSetup) {
						return tr.M{"err": "setup callback never ran"}
					}
				} else if !step(conn.Ready()) {
					return tr.M{"err": "never ready"}
				}
				derr = deliver()
				close(setupGate)
			case "post_init":
				close(fp.cfgGate)
				close(setupGate)
				if !step(conn.Ready()) {
					return tr.M{"err": "never ready"}
				}
				derr = deliver()
			}
			if !step(fp.inited) {
				return tr.M{"err": "init never returned"}
			}
			if derr != nil {
				return tr.M{"err": derr.Error()}
			}
			// buffered notifications are flushed inside init, later ones inside OnSession: the storage is settled now
			res := tr.M{"saved": readSaved(st)}
			cancel()
			<-runDone
			return res
		case "restore":
			k, other := keyN(1), keyN(2)
			d := session.Data{DC: 2, Addr: "1.2.3.4:443", AuthKey: append([]byte(nil), k.Value[:]...), AuthKeyID: append([]byte(nil), k.ID[:]...), Salt: 55}
			switch tr.Str(in["how"]) {
			case "key_byte":
				d.AuthKey[rng.Intn(256)] ^= 1 << uint(rng.Intn(8))
			case "key_id_byte":
				d.AuthKeyID[rng.Intn(8)] ^= 1 << uint(rng.Intn(8))
			case "key_zero":
				d.AuthKey = make([]byte, 256)
			case "id_zero":
				d.AuthKeyID = make([]byte, 8)
			case "key_short":
				d.AuthKey = d.AuthKey[:128]
			case "swap_key_other":
				d.AuthKey = append([]byte(nil), other.Value[:]...)
			}
			raw, _ := json.Marshal(struct {
				Version int
				Data    session.Data
			}{Version: 1, Data: d})
			_ = st.StoreSession(context.Background(), raw)
			err := cl.VerifRestoreConnection(context.Background())
			return tr.M{"ok": err == nil}
		}
		panic("bad kind")
	}
}
