package main

import (
	"context"
	"crypto/md5"
	"encoding/hex"
	"io"
	"math/rand"
	"sync"

	"github.com/gotd/td/telegram/uploader"
	"github.com/gotd/td/tg"
	"github.com/gotd/td/tgerr"

	"verifharness/internal/tr"
)

func srcByte(o int64) byte { return byte((uint64(o)*2654435761 + uint64(o>>7)) >> 3) }

// genReader produces total bytes of the deterministic source in irregular chunks.
type genReader struct {
	off, total int64
	rng        *rand.Rand
}

func (g *genReader) Read(p []byte) (int, error) {
	if g.off >= g.total {
		return 0, io.EOF
	}
	n := len(p)
	if n > 1 && g.rng.Intn(4) == 0 {
		n = 1 + g.rng.Intn(n)
	}
	if int64(n) > g.total-g.off {
		n = int(g.total - g.off)
	}
	for i := 0; i < n; i++ {
		p[i] = srcByte(g.off + int64(i))
	}
	g.off += int64(n)
	return n, nil
}

type upMock struct {
	mu       sync.Mutex
	psize    int64
	faults   map[int][]string // part -> remaining scripted answers
	accepted map[int]int      // part -> times answered true
	lens     map[int]int
	badBytes int
	totals   map[int]bool
	small    int
	big      int
	fileIDs  map[int64]bool
}

func (m *upMock) answer(part int, b []byte, total int, big bool, id int64) (bool, error) {
	m.mu.Lock()
	defer m.mu.Unlock()
	m.fileIDs[id] = true
	if big {
		m.big++
		m.totals[total] = true
	} else {
		m.small++
	}
	if f := m.faults[part]; len(f) > 0 {
		m.faults[part] = f[1:]
		if f[0] == "flood" {
			return false, tgerr.New(420, "FLOOD_WAIT_0")
		}
		return false, nil
	}
	m.accepted[part]++
	m.lens[part] = len(b)
	base := int64(part) * m.psize
	for i := range b {
		if b[i] != srcByte(base+int64(i)) {
			m.badBytes++
			break
		}
	}
	return true, nil
}

func (m *upMock) UploadSaveFilePart(ctx context.Context, r *tg.UploadSaveFilePartRequest) (bool, error) {
	return m.answer(r.FilePart, r.Bytes, 0, false, r.FileID)
}
func (m *upMock) UploadSaveBigFilePart(ctx context.Context, r *tg.UploadSaveBigFilePartRequest) (bool, error) {
	return m.answer(r.FilePart, r.Bytes, r.FileTotalParts, true, r.FileID)
}

func init() {
	modules["upload"] = func(c tr.M, rng *rand.Rand) tr.M {
		in := tr.Map(c["in"])
		exp := tr.Map(c["expect"])
		total := int64(tr.Int(in["total"]))
		known := tr.Bool(in["known"])
		m := &upMock{psize: int64(tr.Int(exp["partsize"])), faults: map[int][]string{}, accepted: map[int]int{}, lens: map[int]int{},
			totals: map[int]bool{}, fileIDs: map[int64]bool{}}
		for _, f := range tr.List(in["faults"]) {
			fm := tr.Map(f)
			m.faults[tr.Int(fm["part"])] = append(m.faults[tr.Int(fm["part"])], tr.Str(fm["kind"]))
		}
		u := uploader.NewUploader(m).WithThreads(tr.Int(in["threads"]))
		if ps := tr.Int(in["partsize"]); ps != 0 {
			u = u.WithPartSize(ps)
		}
		declared := total
		if !known {
			declared = -1
		}
		up := uploader.NewUpload("f.bin", &genReader{total: total, rng: rng}, declared)
		res, err := u.Upload(context.Background(), up)
		if err != nil {
			return tr.M{"ok": false, "err": err.Error()}
		}
		n := len(m.accepted)
		once, sizes := true, true
		maxPart := -1
		for p, k := range m.accepted {
			if k != 1 {
				once = false
			}
			if p > maxPart {
				maxPart = p
			}
		}
		if maxPart != n-1 {
			once = false // numbering is not 0..n-1
		}
		lastlen := 0
		if n > 0 {
			lastlen = m.lens[n-1]
		}
		for p, l := range m.lens {
			if p != n-1 && int64(l) != m.psize {
				sizes = false
			}
		}
		out := tr.M{"ok": true, "parts": n, "each_once": once, "sizes_ok": sizes, "lastlen": lastlen, "content_ok": m.badBytes == 0,
			"partsize": int(m.psize), "big": m.big > 0 || (m.small == 0 && !known)}
		tp := true
		for t := range m.totals {
			if t != n && !(t == -1 && !known) {
				tp = false
			}
		}
		out["total_parts_ok"] = tp && len(m.fileIDs) <= 1
		switch f := res.(type) {
		case *tg.InputFile:
			h := md5.New()
			_, _ = io.Copy(h, &genReader{total: total, rng: rng})
			out["descriptor_parts"] = f.Parts
			out["md5_ok"] = f.MD5Checksum == hex.EncodeToString(h.Sum(nil))
			out["big"] = false
		case *tg.InputFileBig:
			out["descriptor_parts"] = f.Parts
			out["md5_ok"] = true
			out["big"] = true
		}
		return out
	}
}
