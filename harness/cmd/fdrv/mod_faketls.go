package main

import (
	"bytes"
	"crypto/hmac"
	"crypto/sha256"
	"encoding/binary"
	"io"
	"math/rand"
	"sync"

	"github.com/gotd/td/mtproxy"
	"github.com/gotd/td/mtproxy/faketls"

	"verifharness/internal/tr"
)

// wire is an unbounded in-memory duplex end: writes go to out, reads come from in.
type wire struct {
	in  *bytes.Buffer
	out *bytes.Buffer
}

func (w *wire) Read(p []byte) (int, error)  { return w.in.Read(p) }
func (w *wire) Write(p []byte) (int, error) { return w.out.Write(p) }

type pipeEnd struct {
	r *io.PipeReader
	w *io.PipeWriter
}

func (p *pipeEnd) Read(b []byte) (int, error)  { return p.r.Read(b) }
func (p *pipeEnd) Write(b []byte) (int, error) { return p.w.Write(b) }

type lockedBuf struct {
	mu sync.Mutex
	b  []byte
}

func (l *lockedBuf) Write(p []byte) (int, error) {
	l.mu.Lock()
	l.b = append(l.b, p...)
	l.mu.Unlock()
	return len(p), nil
}
func (l *lockedBuf) bytes() []byte {
	l.mu.Lock()
	defer l.mu.Unlock()
	return append([]byte(nil), l.b...)
}
func (l *lockedBuf) reset() { l.mu.Lock(); l.b = nil; l.mu.Unlock() }

type pipeEnd2 struct {
	r *io.PipeReader
	w io.Writer
}

func (p *pipeEnd2) Read(b []byte) (int, error)  { return p.r.Read(b) }
func (p *pipeEnd2) Write(b []byte) (int, error) { return p.w.Write(b) }

// walkRecords parses TLS record headers of a byte stream trusting the declared lengths.
func walkRecords(b []byte) (declaredOK bool) {
	for len(b) > 0 {
		if len(b) < 5 {
			return false
		}
		n := int(binary.BigEndian.Uint16(b[3:5]))
		if b[0] != 0x14 && b[0] != 0x17 && b[0] != 0x16 {
			return false
		}
		if len(b) < 5+n {
			return false
		}
		b = b[5+n:]
	}
	return true
}

func tlsRecord(typ byte, data []byte) []byte {
	r := []byte{typ, 3, 3, byte(len(data) >> 8), byte(len(data))}
	return append(r, data...)
}

func init() {
	modules["faketls"] = func(c tr.M, rng *rand.Rand) tr.M {
		in := tr.Map(c["in"])
		switch tr.Str(in["kind"]) {
		case "stream":
			link := &bytes.Buffer{}
			wr := faketls.NewFakeTLS(rng, &wire{in: &bytes.Buffer{}, out: link})
			var sent []byte
			for _, n := range tr.List(in["writes"]) {
				d := rbytes(rng, tr.Int(n))
				sent = append(sent, d...)
				m, err := wr.Write(d)
				if err != nil || m != len(d) {
					return tr.M{"equal": false, "err": "write"}
				}
			}
			declared := walkRecords(link.Bytes())
			rd := faketls.NewFakeTLS(rng, &wire{in: bytes.NewBuffer(append([]byte(nil), link.Bytes()...)), out: &bytes.Buffer{}})
			var got []byte
			buf := make([]byte, tr.Int(in["chunk"]))
			for len(got) < len(sent) {
				n, err := rd.Read(buf)
				got = append(got, buf[:n]...)
				if err != nil {
					break
				}
			}
			return tr.M{"equal": bytes.Equal(got, sent), "total": len(got), "declared_ok": declared}
		case "duplex":
			// inbound bytes are handed over piece by piece; what the endpoint writes is collected
			inR, inW := io.Pipe()
			out := &lockedBuf{}
			ep := faketls.NewFakeTLS(rng, &pipeEnd2{r: inR, w: out})
			if !tr.Bool(in["first"]) {
				// not the first packet: the ChangeCipherSpec record has gone out earlier
				if _, err := ep.Write([]byte{0xAA}); err != nil {
					return tr.M{"err": "prewrite"}
				}
				out.reset()
			}
			payload := rbytes(rng, tr.Int(in["rsize"]))
			var inbound []byte
			for rest := payload; len(rest) > 0; {
				n := len(rest)
				if n > 16384 {
					n = 16384
				}
				inbound = append(inbound, tlsRecord(0x17, rest[:n])...)
				rest = rest[n:]
			}
			split := tr.Int(in["split"])
			if split > len(inbound) {
				split = len(inbound)
			}
			type rres struct {
				got []byte
				err error
			}
			rch := make(chan rres, 1)
			go func() {
				got := make([]byte, 0, len(payload))
				buf := make([]byte, 4096)
				for len(got) < len(payload) {
					n, err := ep.Read(buf)
					got = append(got, buf[:n]...)
					if err != nil {
						rch <- rres{got, err}
						return
					}
				}
				rch <- rres{got, nil}
			}()
			if split > 0 {
				if _, err := inW.Write(inbound[:split]); err != nil { // returns when the reader has consumed the piece
					return tr.M{"err": "feed1"}
				}
			}
			wdata := rbytes(rng, tr.Int(in["wsize"]))
			wn, werr := ep.Write(wdata)
			go func() { _, _ = inW.Write(inbound[split:]); _ = inW.Close() }()
			r := <-rch
			res := tr.M{"read_equal": r.err == nil && bytes.Equal(r.got, payload), "write_declared_ok": werr == nil && wn == len(wdata) && walkRecords(out.bytes())}
			// payload bytes of the application records the endpoint wrote
			var wrote []byte
			for b := out.bytes(); len(b) >= 5; {
				n := int(binary.BigEndian.Uint16(b[3:5]))
				if len(b) < 5+n {
					break
				}
				if b[0] == 0x17 {
					wrote = append(wrote, b[5:5+n]...)
				}
				b = b[5+n:]
			}
			res["write_equal"] = bytes.Equal(wrote, wdata)
			if r.err != nil {
				res["read_err"] = r.err.Error()
			}
			return res
		case "hello":
			secret := rbytes(rng, 16)
			c2sR, c2sW := io.Pipe()
			s2cR, s2cW := io.Pipe()
			cl := faketls.NewFakeTLS(rand.New(rand.NewSource(rng.Int63())), &pipeEnd{r: s2cR, w: c2sW})
			done := make(chan error, 1)
			go func() {
				done <- cl.Handshake([4]byte{0xee, 0xee, 0xee, 0xee}, 2, mtproxy.Secret{Secret: secret, CloakHost: "example.org", Type: mtproxy.TLS})
				s2cR.Close()
			}()
			// server side: read the client hello record
			hdr := make([]byte, 5)
			if _, err := io.ReadFull(c2sR, hdr); err != nil {
				return tr.M{"ok": false, "err": "no client hello"}
			}
			body := make([]byte, int(binary.BigEndian.Uint16(hdr[3:5])))
			if _, err := io.ReadFull(c2sR, body); err != nil {
				return tr.M{"ok": false, "err": "short client hello"}
			}
			hello := append(hdr, body...)
			if len(hello) < 43 {
				return tr.M{"ok": false, "err": "short client hello"}
			}
			var clientRandom [32]byte
			copy(clientRandom[:], hello[11:43])
			// server answer: handshake record (server hello, digest at offset 11), change cipher spec, application data
			sh := make([]byte, 6+32+40)
			sh[0] = 2
			rng.Read(sh[6+32:])
			how := tr.Str(in["how"])
			var packet []byte
			packet = append(packet, tlsRecord(0x16, sh)...)
			if how == "extra_handshake_records" {
				packet = append(packet, tlsRecord(0x16, rbytes(rng, 20))...)
			}
			if how != "no_ccs" {
				packet = append(packet, tlsRecord(0x14, []byte{1})...)
			}
			packet = append(packet, tlsRecord(0x17, rbytes(rng, 100))...)
			key, cr := secret, clientRandom
			switch how {
			case "wrong_secret":
				key = rbytes(rng, 16)
			case "wrong_random":
				cr[rng.Intn(32)] ^= 1
			}
			mac := hmac.New(sha256.New, key)
			mac.Write(cr[:])
			if how == "digest_of_other_packet" {
				other := append([]byte(nil), packet...)
				other[len(other)-1] ^= 1
				mac.Write(other)
			} else {
				mac.Write(packet)
			}
			digest := mac.Sum(nil)
			switch how {
			case "flipped_digest":
				digest[rng.Intn(32)] ^= 1 << uint(rng.Intn(8))
			case "zero_digest":
				digest = make([]byte, 32)
			}
			copy(packet[11:43], digest)
			go func() { _, _ = s2cW.Write(packet); s2cW.Close() }()
			err := <-done
			go func() { _, _ = io.Copy(io.Discard, c2sR) }()
			return tr.M{"ok": err == nil}
		}
		panic("bad kind")
	}
}
