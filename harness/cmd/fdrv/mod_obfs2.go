package main

import (
	"bytes"
	"encoding/binary"
	"io"
	"math/rand"

	"github.com/gotd/td/mtproxy"
	"github.com/gotd/td/mtproxy/obfuscated2"

	"verifharness/internal/tr"
)

// scriptedBlocks yields the given 64-byte blocks first, then pseudo-random bytes; counts 64-byte draws.
type scriptedBlocks struct {
	blocks [][]byte
	r      *rand.Rand
	draws  int
}

func (s *scriptedBlocks) Read(p []byte) (int, error) {
	if len(p) == 64 {
		s.draws++
		if len(s.blocks) > 0 {
			copy(p, s.blocks[0])
			s.blocks = s.blocks[1:]
			return 64, nil
		}
	}
	return s.r.Read(p)
}

func tagBytes(t string) [4]byte {
	switch t {
	case "abridged":
		return [4]byte{0xef, 0xef, 0xef, 0xef}
	case "intermediate":
		return [4]byte{0xee, 0xee, 0xee, 0xee}
	}
	return [4]byte{0xdd, 0xdd, 0xdd, 0xdd}
}

func reservedBlock(kind string, rng *rand.Rand) []byte {
	b := rbytes(rng, 64)
	if b[0] == 0xef {
		b[0] = 0x01
	}
	put := func(s string) { copy(b, s) }
	switch kind {
	case "ef":
		b[0] = 0xef
	case "HEAD":
		put("HEAD")
	case "POST":
		put("POST")
	case "GET ":
		put("GET ")
	case "OPTI":
		put("OPTI")
	case "tls":
		copy(b, []byte{0x16, 0x03, 0x01, 0x02})
	case "dddddddd":
		copy(b, []byte{0xdd, 0xdd, 0xdd, 0xdd})
	case "eeeeeeee":
		copy(b, []byte{0xee, 0xee, 0xee, 0xee})
	case "second_zero":
		copy(b[4:8], []byte{0, 0, 0, 0})
	}
	return b
}

func isReservedHeader(h []byte) bool {
	if len(h) < 8 {
		return true
	}
	if h[0] == 0xef {
		return true
	}
	for _, p := range [][]byte{[]byte("HEAD"), []byte("POST"), []byte("GET "), []byte("OPTI"), {0x16, 0x03, 0x01, 0x02}, {0xdd, 0xdd, 0xdd, 0xdd}, {0xee, 0xee, 0xee, 0xee}} {
		if bytes.HasPrefix(h, p) {
			return true
		}
	}
	return binary.LittleEndian.Uint32(h[4:8]) == 0
}

// segRW hands over at most seg bytes per Read.
type segRW struct {
	io.ReadWriter
	seg int
}

func (s *segRW) Read(p []byte) (int, error) {
	if len(p) > s.seg {
		p = p[:s.seg]
	}
	return s.ReadWriter.Read(p)
}

// transfer writes data in the given chunk sizes through w and reads it back from r with read chunk rc.
func transfer(w io.Writer, r io.Reader, link *bytes.Buffer, sizes []any, rc int, rng *rand.Rand) bool {
	var sent []byte
	for _, n := range sizes {
		d := rbytes(rng, tr.Int(n))
		sent = append(sent, d...)
		if _, err := w.Write(d); err != nil {
			return false
		}
	}
	var got []byte
	buf := make([]byte, rc)
	for len(got) < len(sent) {
		n, err := r.Read(buf)
		got = append(got, buf[:n]...)
		if err != nil {
			break
		}
	}
	return bytes.Equal(got, sent)
}

func init() {
	modules["obfs2"] = func(c tr.M, rng *rand.Rand) tr.M {
		in := tr.Map(c["in"])
		kind := tr.Str(in["kind"])
		c2s, s2c := &bytes.Buffer{}, &bytes.Buffer{}
		src := &scriptedBlocks{r: rng}
		tag := tagBytes(tr.Str(in["tag"]))
		dc := 2
		var secret []byte
		switch kind {
		case "run":
			dc = tr.Int(in["dc"])
			if tr.Str(in["secret"]) == "16" {
				secret = rbytes(rng, 16)
			}
		case "wrongsecret":
			secret = rbytes(rng, 16)
		case "reserved":
			tag = tagBytes("intermediate")
			for i := 0; i < tr.Int(in["times"]); i++ {
				src.blocks = append(src.blocks, reservedBlock(tr.Str(in["first"]), rng))
			}
		}
		cl := obfuscated2.NewObfuscated2(src, &wire{in: s2c, out: c2s})
		if err := cl.Handshake(tag, dc, mtproxy.Secret{Secret: secret}); err != nil {
			return tr.M{"accept_ok": false, "err": err.Error()}
		}
		header := append([]byte(nil), c2s.Bytes()...)
		asecret := secret
		if kind == "wrongsecret" {
			asecret = rbytes(rng, 16)
		}
		var under io.ReadWriter = &wire{in: c2s, out: s2c}
		if h := tr.Int(in["hseg"]); h > 0 {
			under = &segRW{ReadWriter: under, seg: h}
		}
		srv, meta, err := obfuscated2.Accept(under, asecret)
		if err != nil {
			return tr.M{"accept_ok": false, "err": err.Error()}
		}
		res := tr.M{"accept_ok": true, "tag_equal": meta.Protocol == tag, "dc": int(meta.DC), "header_len": len(header),
			"header_reserved": isReservedHeader(header), "draws": src.draws}
		if kind == "run" {
			res["c2s_equal"] = transfer(cl, srv, c2s, tr.List(in["c2s"]), tr.Int(in["rchunk"]), rng)
			res["s2c_equal"] = transfer(srv, cl, s2c, tr.List(in["s2c"]), tr.Int(in["rchunk"]), rng)
		}
		return res
	}
}
