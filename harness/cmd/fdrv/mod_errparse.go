package main

import (
	"context"
	"math/rand"
	"sync"
	"time"

	"github.com/gotd/td/clock"
	"github.com/gotd/td/tgerr"

	"verifharness/internal/tr"
)

type recTimer struct{ ch chan time.Time }

func (t recTimer) C() <-chan time.Time   { return t.ch }
func (t recTimer) Stop() bool            { return false }
func (t recTimer) Reset(d time.Duration) {}

// recClock records requested timer durations and fires them at once.
type recClock struct {
	mu sync.Mutex
	ds []time.Duration
}

func (c *recClock) Now() time.Time { return time.Unix(1700000000, 0) }
func (c *recClock) Timer(d time.Duration) clock.Timer {
	c.mu.Lock()
	c.ds = append(c.ds, d)
	c.mu.Unlock()
	ch := make(chan time.Time, 1)
	ch <- time.Unix(1700000000, 0).Add(d)
	return recTimer{ch}
}
func (c *recClock) Ticker(d time.Duration) clock.Ticker { panic("no ticker") }

func init() {
	modules["errparse"] = func(c tr.M, rng *rand.Rand) tr.M {
		in := tr.Map(c["in"])
		e := tgerr.New(tr.Int(in["code"]), tr.Str(in["msg"]))
		got := tr.M{"type": e.Type, "arg": e.Argument}
		clk := &recClock{}
		retry, _ := tgerr.FloodWait(context.Background(), e, tgerr.FloodWaitWithClock(clk))
		got["retry"] = retry
		_, isFlood := tgerr.AsFloodWait(e)
		got["flood"] = isFlood
		if len(clk.ds) == 1 {
			got["wait_s"] = int(clk.ds[0] / time.Second)
			got["wait_exact"] = clk.ds[0]%time.Second == 0
		}
		return got
	}
}
