package main

import (
	"bytes"
	"math"
	"math/rand"

	"github.com/gotd/td/bin"

	"verifharness/internal/tr"
)

func encStr(as string, data []byte) *bin.Buffer {
	b := &bin.Buffer{}
	if as == "string" {
		b.PutString(string(data))
	} else {
		b.PutBytes(data)
	}
	return b
}

func decStr(as string, b *bin.Buffer) ([]byte, error) {
	if as == "string" {
		s, err := b.String()
		return []byte(s), err
	}
	return b.Bytes()
}

func pick(v string, rng *rand.Rand, min, max, zero int64) int64 {
	switch v {
	case "zero":
		return zero
	case "min":
		return min
	case "max":
		return max
	}
	return rng.Int63()
}

// fixedRT encodes a value of type t, decodes it back; returns (encoded length, equal, consumed)
func fixedRT(t, v string, rng *rand.Rand, cut int) (int, bool, int, error) {
	b := &bin.Buffer{}
	var check func(*bin.Buffer) (bool, error)
	switch t {
	case "int":
		x := int(int32(pick(v, rng, math.MinInt32, math.MaxInt32, 0)))
		b.PutInt(x)
		check = func(d *bin.Buffer) (bool, error) { y, err := d.Int(); return y == x, err }
	case "int32":
		x := int32(pick(v, rng, math.MinInt32, math.MaxInt32, 0))
		b.PutInt32(x)
		check = func(d *bin.Buffer) (bool, error) { y, err := d.Int32(); return y == x, err }
	case "long":
		x := pick(v, rng, math.MinInt64, math.MaxInt64, 0)
		b.PutLong(x)
		check = func(d *bin.Buffer) (bool, error) { y, err := d.Long(); return y == x, err }
	case "int53":
		x := pick(v, rng, -(1 << 53), 1<<53, 0)
		b.PutInt53(x)
		check = func(d *bin.Buffer) (bool, error) { y, err := d.Int53(); return y == x, err }
	case "uint64":
		x := uint64(pick(v, rng, 0, -1, 0))
		b.PutUint64(x)
		check = func(d *bin.Buffer) (bool, error) { y, err := d.Uint64(); return y == x, err }
	case "double":
		x := map[string]float64{"zero": 0, "min": -math.MaxFloat64, "max": math.MaxFloat64}[v]
		if v == "random" {
			x = rng.NormFloat64() * 1e10
		}
		b.PutDouble(x)
		check = func(d *bin.Buffer) (bool, error) { y, err := d.Double(); return y == x, err }
	case "bool":
		x := v == "max" || (v == "random" && rng.Intn(2) == 0)
		b.PutBool(x)
		check = func(d *bin.Buffer) (bool, error) { y, err := d.Bool(); return y == x, err }
	case "int128":
		var x bin.Int128
		if v != "zero" {
			rng.Read(x[:])
		}
		b.PutInt128(x)
		check = func(d *bin.Buffer) (bool, error) { y, err := d.Int128(); return y == x, err }
	case "int256":
		var x bin.Int256
		if v != "zero" {
			rng.Read(x[:])
		}
		b.PutInt256(x)
		check = func(d *bin.Buffer) (bool, error) { y, err := d.Int256(); return y == x, err }
	case "vector":
		x := int(pick(v, rng, 0, math.MaxInt32, 0) & 0x7fffffff)
		if v == "random" {
			x = rng.Intn(1 << 20)
		}
		b.PutVectorHeader(x)
		check = func(d *bin.Buffer) (bool, error) { y, err := d.VectorHeader(); return y == x, err }
	case "id":
		x := uint32(pick(v, rng, 0, math.MaxUint32, 0))
		b.PutID(x)
		check = func(d *bin.Buffer) (bool, error) { y, err := d.ID(); return y == x, err }
	default:
		panic("bad type " + t)
	}
	n := b.Len()
	buf := b.Buf
	if cut >= 0 {
		if cut > len(buf) {
			buf = append(buf, make([]byte, cut-len(buf))...)
		}
		buf = buf[:cut]
	}
	d := &bin.Buffer{Buf: append([]byte(nil), buf...)}
	before := d.Len()
	eq, err := check(d)
	return n, eq, before - d.Len(), err
}

func init() {
	modules["tlprim"] = func(c tr.M, rng *rand.Rand) tr.M {
		in := tr.Map(c["in"])
		switch tr.Str(in["kind"]) {
		case "str":
			data := rbytes(rng, tr.Int(in["len"]))
			as := tr.Str(in["as"])
			b := encStr(as, data)
			n := b.Len()
			b.Put([]byte{1, 2, 3, 4}) // trailing data must not be consumed
			got, err := decStr(as, b)
			if err != nil {
				return tr.M{"enclen": n, "roundtrip": false, "err": err.Error()}
			}
			return tr.M{"enclen": n, "roundtrip": bytes.Equal(got, data), "consumed": n + 4 - b.Len(), "aligned": n%4 == 0}
		case "fixed":
			n, eq, cons, err := fixedRT(tr.Str(in["t"]), tr.Str(in["v"]), rng, -1)
			return tr.M{"enclen": n, "roundtrip": eq && err == nil, "consumed": cons}
		case "cut":
			data := rbytes(rng, tr.Int(in["len"]))
			as := tr.Str(in["as"])
			b := encStr(as, data)
			av := tr.Int(in["avail"])
			buf := append(b.Buf, 9, 9, 9, 9)[:av]
			d := &bin.Buffer{Buf: append([]byte(nil), buf...)}
			got, err := decStr(as, d)
			return tr.M{"ok": err == nil && bytes.Equal(got, data), "nopanic": true}
		case "fcut":
			_, eq, _, err := fixedRT(tr.Str(in["t"]), "random", rng, tr.Int(in["avail"]))
			return tr.M{"ok": err == nil && eq, "nopanic": true}
		case "fb":
			buf := rbytes(rng, tr.Int(in["avail"]))
			buf[0] = byte(tr.Int(in["fb"]))
			d := &bin.Buffer{Buf: buf}
			_, _ = decStr(tr.Str(in["as"]), d)
			return tr.M{"nopanic": true}
		case "cat":
			ls := tr.List(in["lens"])
			a, s2 := rbytes(rng, tr.Int(ls[0])), rbytes(rng, tr.Int(ls[1]))
			b := &bin.Buffer{}
			b.PutBytes(a)
			b.PutInt(7)
			b.PutString(string(s2))
			b.PutLong(-5)
			total := b.Len()
			x, e1 := b.Bytes()
			i, e2 := b.Int()
			y, e3 := b.String()
			l, e4 := b.Long()
			return tr.M{"total": total, "roundtrip": e1 == nil && e2 == nil && e3 == nil && e4 == nil && bytes.Equal(x, a) && i == 7 && y == string(s2) && l == -5 && b.Len() == 0}
		}
		panic("bad kind")
	}
}
