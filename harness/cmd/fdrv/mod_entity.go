package main

import (
	"sort"
	"unicode/utf16"

	"github.com/gotd/td/telegram/message/styling"
	"math/rand"

	"github.com/gotd/td/telegram/message/entity"
	"github.com/gotd/td/tg"

	"verifharness/internal/tr"
)

func init() {
	modules["entitysort"] = func(c tr.M, rng *rand.Rand) tr.M {
		in := tr.Map(c["in"])
		var ents []tg.MessageEntityClass
		for _, e := range tr.List(in["ents"]) {
			m := tr.Map(e)
			off, l := tr.Int(m["off"]), tr.Int(m["len"])
			switch rng.Intn(3) {
			case 0:
				ents = append(ents, &tg.MessageEntityBold{Offset: off, Length: l})
			case 1:
				ents = append(ents, &tg.MessageEntityItalic{Offset: off, Length: l})
			default:
				ents = append(ents, &tg.MessageEntityCode{Offset: off, Length: l})
			}
		}
		entity.SortEntities(ents)
		out := make([]any, 0, len(ents))
		for _, e := range ents {
			out = append(out, tr.M{"off": e.GetOffset(), "len": e.GetLength()})
		}
		return tr.M{"out": out}
	}
}

var astrals = []rune{0x1F600, 0x1F4A9, 0x1F680, 0x10348, 0x1D11E}

func runeClass(cl string, rng *rand.Rand) string {
	switch cl {
	case "a":
		return string(rune('a' + rng.Intn(26)))
	case "e1":
		return string([]rune{0xe9, 0xdf, 0x416}[rng.Intn(3)])
	case "cjk":
		return string([]rune{0x6f22, 0x3042, 0xac00}[rng.Intn(3)])
	case "astral":
		return string(astrals[rng.Intn(len(astrals))])
	case "comb":
		return "é"
	case "sp":
		return " "
	case "nbsp":
		return " "
	case "nl":
		return "\n"
	case "emsp":
		return " "
	case "zwj":
		return "\U0001F468‍\U0001F469"
	}
	panic("bad rune class " + cl)
}

func init() {
	modules["entitybuild"] = func(c tr.M, rng *rand.Rand) tr.M {
		in := tr.Map(c["in"])
		b := &entity.Builder{}
		if tr.Str(in["kind"]) == "nest" {
			txt := func(k string) string {
				s := ""
				for _, cl := range tr.List(in[k]) {
					s += runeClass(tr.Str(cl), rng)
				}
				return s
			}
			outer := b.Token()
			_, _ = b.WriteString(txt("pre"))
			inner := b.Token()
			_, _ = b.WriteString(txt("inner"))
			inner.Apply(b, entity.Italic())
			_, _ = b.WriteString(txt("post"))
			outer.Apply(b, entity.Bold())
			if t := txt("tail"); t != "" {
				b.Plain(t)
			}
			return entResult(b)
		}
		if tr.Str(in["kind"]) == "reuse" {
			// the same builder for two messages in a row; the caller keeps the first result
			if err := buildPieces(b, tr.List(in["first"]), rng); err != nil {
				return tr.M{"err": err.Error()}
			}
			msg1, ents1 := b.Complete()
			type snap struct {
				t        uint32
				off, len int
			}
			var before []snap
			for _, e := range ents1 {
				before = append(before, snap{e.TypeID(), e.GetOffset(), e.GetLength()})
			}
			msgBefore := string(append([]byte(nil), msg1...))
			if err := buildPieces(b, tr.List(in["pieces"]), rng); err != nil {
				return tr.M{"err": err.Error()}
			}
			res := entResult(b)
			intact := msg1 == msgBefore && len(ents1) == len(before)
			for i := 0; intact && i < len(ents1); i++ {
				intact = ents1[i] != nil && before[i] == snap{ents1[i].TypeID(), ents1[i].GetOffset(), ents1[i].GetLength()}
			}
			res["first_intact"] = intact
			return res
		}
		if err := buildPieces(b, tr.List(in["pieces"]), rng); err != nil {
			return tr.M{"err": err.Error()}
		}
		return entResult(b)
	}
}

func buildPieces(b *entity.Builder, pieces []any, rng *rand.Rand) error {
	useStyling := rng.Intn(2) == 0
	var opts []styling.StyledTextOption
	for _, p := range pieces {
		m := tr.Map(p)
		s := ""
		for _, cl := range tr.List(m["text"]) {
			s += runeClass(tr.Str(cl), rng)
		}
		text := s
		switch tr.Str(m["fmt"]) {
		case "plain":
			if useStyling {
				opts = append(opts, styling.Plain(text))
			} else {
				b.Plain(text)
			}
		case "bold":
			if useStyling {
				opts = append(opts, styling.Bold(text))
			} else {
				b.Bold(text)
			}
		case "italic":
			if useStyling {
				opts = append(opts, styling.Italic(text))
			} else {
				b.Italic(text)
			}
		case "bi":
			if useStyling {
				opts = append(opts, styling.Custom(func(eb *entity.Builder) error { eb.Format(text, entity.Bold(), entity.Italic()); return nil }))
			} else {
				b.Format(text, entity.Bold(), entity.Italic())
			}
		}
	}
	if useStyling {
		if err := styling.Perform(b, opts...); err != nil {
			return err
		}
	}
	return nil
}

func entResult(b *entity.Builder) tr.M {
	{
		msg, ents := b.Complete()
		type e3 struct {
			t        string
			off, len int
		}
		var es []e3
		for _, e := range ents {
			t := "other"
			switch e.(type) {
			case *tg.MessageEntityBold:
				t = "bold"
			case *tg.MessageEntityItalic:
				t = "italic"
			}
			es = append(es, e3{t, e.GetOffset(), e.GetLength()})
		}
		sort.Slice(es, func(i, j int) bool {
			if es[i].off != es[j].off {
				return es[i].off < es[j].off
			}
			return es[i].t < es[j].t
		})
		out := make([]any, 0, len(es))
		for _, e := range es {
			out = append(out, tr.M{"type": e.t, "off": e.off, "len": e.len})
		}
		return tr.M{"entities": out, "units": len(utf16.Encode([]rune(msg)))}
	}
}
