package main

import (
	"math/rand"

	"github.com/gotd/td/telegram/message/entity"
	"github.com/gotd/td/tg"

	"verifharness/internal/tr"
)

func init() {
	modules["entitysort"] = func(c tr.M, rng *rand.Rand) tr.M {
		in := tr.Map(c["in"])
		var ents []tg.MessageEntityClass
		for _, e := range tr.List(in["ents"]) {
			m := tr.Map(e)
			off, l := tr.Int(m["off"]), tr.Int(m["len"])
			switch rng.Intn(3) {
			case 0:
				ents = append(ents, &tg.MessageEntityBold{Offset: off, Length: l})
			case 1:
				ents = append(ents, &tg.MessageEntityItalic{Offset: off, Length: l})
			default:
				ents = append(ents, &tg.MessageEntityCode{Offset: off, Length: l})
			}
		}
		entity.SortEntities(ents)
		out := make([]any, 0, len(ents))
		for _, e := range ents {
			out = append(out, tr.M{"off": e.GetOffset(), "len": e.GetLength()})
		}
		return tr.M{"out": out}
	}
}
