package main

import (
	"bytes"
	"math/rand"
	"reflect"

	"github.com/gotd/td/fileid"

	"verifharness/internal/tr"
)

func nz(rng *rand.Rand) byte { return byte(1 + rng.Intn(255)) }

func rleRef(a, b int, rng *rand.Rand) []byte {
	var r []byte
	r = append(r, bytes.Repeat([]byte{0}, a)...)
	r = append(r, nz(rng))
	r = append(r, bytes.Repeat([]byte{0}, b)...)
	r = append(r, nz(rng))
	return r
}

func init() {
	modules["rle"] = func(c tr.M, rng *rand.Rand) tr.M {
		in := tr.Map(c["in"])
		a := tr.Int(in["a"])
		id := fileid.FileID{Type: fileid.Document, DC: 1 + rng.Intn(5), ID: rng.Int63(), AccessHash: rng.Int63()}
		switch rng.Intn(3) {
		case 0:
			id.ID = 0
		case 1:
			id.AccessHash = 0
		}
		switch tr.Str(in["kind"]) {
		case "ref":
			id.FileReference = rleRef(a, tr.Int(in["b"]), rng)
			s, err := fileid.EncodeFileID(id)
			if err != nil {
				return tr.M{"roundtrip": false, "nopanic": true, "err": err.Error()}
			}
			back, err := fileid.DecodeFileID(s)
			if err != nil {
				return tr.M{"roundtrip": false, "nopanic": true, "err": err.Error()}
			}
			return tr.M{"roundtrip": reflect.DeepEqual(id, back), "nopanic": true, "reflen": len(back.FileReference)}
		case "mut":
			id.FileReference = rleRef(a, 1, rng)
			s, _ := fileid.EncodeFileID(id)
			bs := []byte(s)
			switch tr.Str(in["mut"]) {
			case "trunc1":
				bs = bs[:len(bs)-1]
			case "trunchalf":
				bs = bs[:len(bs)/2]
			case "flipfirst":
				bs[0] ^= 1
			case "flipmid":
				bs[len(bs)/2] ^= byte(1 + rng.Intn(63))
			case "fliplast":
				bs[len(bs)-1] ^= 1
			case "random":
				for i := range bs {
					bs[i] = "ABCDEFGHIJKLMNOPQRSTUVWXYZabcdefghijklmnopqrstuvwxyz0123456789-_"[rng.Intn(64)]
				}
			case "empty":
				bs = nil
			case "badb64":
				bs[len(bs)/3] = '!'
			case "zeropair":
				bs = []byte("AAAAAAAAAAAAAAAAAAAAAAAAAAAAAAAAAAAAAAAA")[:1+rng.Intn(39)]
			}
			_, _ = fileid.DecodeFileID(string(bs))
			return tr.M{"nopanic": true}
		}
		panic("bad kind")
	}
}
