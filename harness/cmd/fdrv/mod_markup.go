package main

import (
	"math/rand"
	"strings"
	"unicode/utf16"
	"unicode/utf8"

	"github.com/gotd/td/telegram/message/entity"
	"github.com/gotd/td/telegram/message/html"
	"github.com/gotd/td/telegram/message/markdown"
	"github.com/gotd/td/tg"

	"verifharness/internal/tr"
)

func tokenBytes(t string) string {
	switch t {
	case "U+1F600":
		return "\U0001F600"
	case "NL":
		return "\n"
	case "0xFF":
		return "\xff"
	case "0xF0 0x9F":
		return "\xf0\x9f"
	case "U+00A0":
		return " "
	case "```go NL":
		return "```go\n"
	}
	return t
}

// utf16Units counts UTF-16 code units the way Telegram does; invalid UTF-8 bytes count as one unit each (U+FFFD).
func utf16Units(s string) int {
	n := 0
	for len(s) > 0 {
		r, size := utf8.DecodeRuneInString(s)
		n += len(utf16.Encode([]rune{r}))
		s = s[size:]
	}
	return n
}

func init() {
	modules["markup"] = func(c tr.M, rng *rand.Rand) tr.M {
		in := tr.Map(c["in"])
		var sb strings.Builder
		for _, t := range tr.List(in["tokens"]) {
			sb.WriteString(tokenBytes(tr.Str(t)))
		}
		b := &entity.Builder{}
		resolver := func(id int64) (tg.InputUserClass, error) { return &tg.InputUser{UserID: id, AccessHash: 1}, nil }
		var err error
		if tr.Str(in["kind"]) == "html" {
			err = html.HTML(strings.NewReader(sb.String()), b, html.Options{UserResolver: resolver})
		} else {
			err = markdown.Markdown(strings.NewReader(sb.String()), b, markdown.Options{UserResolver: resolver})
		}
		if err != nil {
			return tr.M{"err": true, "entities": []any{}, "units": 0}
		}
		msg, ents := b.Complete()
		out := make([]any, 0, len(ents))
		for _, e := range ents {
			out = append(out, tr.M{"off": e.GetOffset(), "len": e.GetLength()})
		}
		return tr.M{"err": false, "entities": out, "units": utf16Units(msg)}
	}
}
