package main

import (
	"math/rand"
	"strings"
	"unicode/utf16"
	"unicode/utf8"

	"github.com/gotd/td/telegram/message/entity"
	"github.com/gotd/td/telegram/message/html"
	"github.com/gotd/td/telegram/message/markdown"
	"github.com/gotd/td/tg"

	"verifharness/internal/tr"
)

func tokenBytes(t string) string {
	switch t {
	case "U+1F600":
		return "\U0001F600"
	case "NL":
		return "\n"
	case "0xFF":
		return "\xff"
	case "0xF0 0x9F":
		return "\xf0\x9f"
	case "U+00A0":
		return " "
	case "```go NL":
		return "```go\n"
	}
	return t
}

// utf16Units counts UTF-16 code units the way Telegram does; invalid UTF-8 bytes count as one unit each (U+FFFD).
func utf16Units(s string) int {
	n := 0
	for len(s) > 0 {
		r, size := utf8.DecodeRuneInString(s)
		n += len(utf16.Encode([]rune{r}))
		s = s[size:]
	}
	return n
}

func init() {
	modules["markup"] = func(c tr.M, rng *rand.Rand) tr.M {
		in := tr.Map(c["in"])
		text := func(k string) string {
			var sb strings.Builder
			for _, t := range tr.List(in[k]) {
				sb.WriteString(tokenBytes(tr.Str(t)))
			}
			return sb.String()
		}
		resolver := func(id int64) (tg.InputUserClass, error) { return &tg.InputUser{UserID: id, AccessHash: 1}, nil }
		parse := func(src string) (*entity.Builder, error) {
			b := &entity.Builder{}
			if tr.Str(in["kind"]) == "html" {
				return b, html.HTML(strings.NewReader(src), b, html.Options{UserResolver: resolver})
			}
			return b, markdown.Markdown(strings.NewReader(src), b, markdown.Options{UserResolver: resolver})
		}
		if in["first"] != nil {
			// an earlier parse in the same process must not influence this one: the pair runs repeatedly (whatever the
			// parsers keep between calls may or may not be reused) and the first offending result of the second parse counts
			first, second := text("first"), text("tokens")
			for k := 0; k < 40; k++ {
				_, _ = parse(first)
				b, err := parse(second)
				if err != nil {
					continue
				}
				msg, ents := b.Complete()
				units := utf16Units(msg)
				for _, e := range ents {
					if e.GetOffset() < 0 || e.GetLength() < 0 || e.GetOffset()+e.GetLength() > units {
						out := make([]any, 0, len(ents))
						for _, e := range ents {
							out = append(out, tr.M{"off": e.GetOffset(), "len": e.GetLength()})
						}
						return tr.M{"err": false, "entities": out, "units": units, "round": k}
					}
				}
			}
		}
		b, err := parse(text("tokens"))
		if err != nil {
			return tr.M{"err": true, "entities": []any{}, "units": 0}
		}
		msg, ents := b.Complete()
		out := make([]any, 0, len(ents))
		for _, e := range ents {
			out = append(out, tr.M{"off": e.GetOffset(), "len": e.GetLength()})
		}
		return tr.M{"err": false, "entities": out, "units": utf16Units(msg)}
	}
}
