package main

import (
	"bytes"
	"math/rand"

	"github.com/gotd/td/crypto"

	"verifharness/internal/tr"
)

func rbytes(rng *rand.Rand, n int) []byte {
	b := make([]byte, n)
	rng.Read(b)
	return b
}

func init() {
	modules["answer"] = func(c tr.M, rng *rand.Rand) tr.M {
		in := tr.Map(c["in"])
		key, iv := rbytes(rng, 32), rbytes(rng, 32)
		data := rbytes(rng, tr.Int(in["len"]))
		ct, err := crypto.EncryptExchangeAnswer(rng, data, key, iv)
		if err != nil {
			panic(err)
		}
		switch tr.Str(in["tamper"]) {
		case "hashbyte":
			ct[rng.Intn(16)] ^= byte(1 + rng.Intn(255)) // first block holds the hash prefix
		case "firstblock":
			ct[rng.Intn(16)] ^= 0x80
		case "databyte":
			ct[16+rng.Intn(len(ct)-16)] ^= byte(1 + rng.Intn(255))
		case "lastblock":
			ct[len(ct)-1-rng.Intn(16)] ^= byte(1 + rng.Intn(255))
		}
		dkey := key
		if tr.Str(in["key"]) == "other" {
			dkey = rbytes(rng, 32)
		}
		if !tr.Bool(in["aligned"]) {
			ct = ct[:len(ct)-1-rng.Intn(15)]
		}
		dst, err := crypto.DecryptExchangeAnswer(ct, dkey, iv)
		switch {
		case err != nil:
			return tr.M{"outcome": "error"}
		case dst == nil:
			return tr.M{"outcome": "nil-nil"}
		case bytes.Equal(dst, data):
			return tr.M{"outcome": "data"}
		default:
			return tr.M{"outcome": "wrong-data"}
		}
	}
}
