package main

import (
	"bytes"
	"crypto/aes"
	crand "crypto/rand"
	"crypto/rsa"
	"math/rand"
	"sync"

	"github.com/gotd/ige"

	"github.com/gotd/td/bin"
	"github.com/gotd/td/crypto"

	"verifharness/internal/tr"
)

// scripted randomness: first byte fixed (selects the number of random padding blocks), then pseudo-random
type firstByte struct {
	b    byte
	used bool
	r    *rand.Rand
}

func (f *firstByte) Read(p []byte) (int, error) {
	n, _ := f.r.Read(p)
	if !f.used && len(p) > 0 {
		p[0] = f.b
		f.used = true
	}
	return n, nil
}

type rawPayload []byte

func (r rawPayload) Encode(b *bin.Buffer) error { b.Put(r); return nil }

func side(s string) crypto.Side {
	if s == "client" {
		return crypto.Client
	}
	return crypto.Server
}

func cipherOf(s string, r *firstByte) crypto.Cipher {
	if s == "client" {
		return crypto.NewClientCipher(r)
	}
	return crypto.NewServerCipher(r)
}
func opp(s string) string {
	if s == "client" {
		return "server"
	}
	return "client"
}

func randKey(rng *rand.Rand) crypto.AuthKey {
	var k crypto.Key
	rng.Read(k[:])
	return k.WithID()
}

// exactPadding builds a ciphertext from `from` with exactly pad bytes of padding and a chosen length field.
func exactPadding(rng *rand.Rand, key crypto.AuthKey, from string, payload []byte, pad int, lenfield string) []byte {
	plain := &bin.Buffer{}
	plain.PutLong(rng.Int63())
	plain.PutLong(rng.Int63())
	plain.PutLong(rng.Int63() &^ 3)
	plain.PutInt32(1)
	n := len(payload)
	switch lenfield {
	case "negative":
		n = -4
	case "unaligned":
		n = len(payload) - 2
	case "beyond":
		n = len(payload) + pad + 64
	case "huge":
		n = 0x7ffffffc
	}
	plain.PutInt32(int32(n))
	plain.Put(payload)
	plain.Put(rbytes(rng, pad))
	msgKey := crypto.MessageKey(key.Value, plain.Buf, side(from))
	k, iv := crypto.Keys(key.Value, msgKey, side(from))
	blk, _ := aes.NewCipher(k[:])
	enc := make([]byte, len(plain.Buf))
	ige.EncryptBlocks(blk, iv[:], enc, plain.Buf)
	out := &bin.Buffer{}
	out.Put(key.ID[:])
	out.Put(msgKey[:])
	out.Put(enc)
	return out.Buf
}

var (
	rsaOnce      sync.Once
	rsaK1, rsaK2 *rsa.PrivateKey
)

func rsaKeys() (*rsa.PrivateKey, *rsa.PrivateKey) {
	rsaOnce.Do(func() {
		rsaK1, _ = rsa.GenerateKey(crand.Reader, 2048)
		rsaK2, _ = rsa.GenerateKey(crand.Reader, 2048)
	})
	return rsaK1, rsaK2
}

func init() {
	modules["msgcrypt"] = func(c tr.M, rng *rand.Rand) tr.M {
		in := tr.Map(c["in"])
		switch tr.Str(in["kind"]) {
		case "roundtrip":
			s := tr.Str(in["side"])
			key := randKey(rng)
			payload := rbytes(rng, tr.Int(in["len"]))
			d := crypto.EncryptedMessageData{Salt: rng.Int63(), SessionID: rng.Int63(), MessageID: rng.Int63(), SeqNo: int32(rng.Intn(1 << 20))}
			if rng.Intn(2) == 0 {
				d.Message = rawPayload(payload)
			} else {
				d.MessageDataLen = int32(len(payload))
				d.MessageDataWithPadding = payload
			}
			b := &bin.Buffer{}
			if err := cipherOf(s, &firstByte{b: byte(tr.Int(in["rbyte"])), r: rng}).Encrypt(key, d, b); err != nil {
				return tr.M{"ok": false, "err": "encrypt: " + err.Error()}
			}
			total := b.Len()
			got, err := cipherOf(opp(s), &firstByte{r: rng}).DecryptFromBuffer(key, b)
			if err != nil {
				return tr.M{"ok": false, "err": err.Error()}
			}
			return tr.M{"ok": true,
				"fields_equal":  got.Salt == d.Salt && got.SessionID == d.SessionID && got.MessageID == d.MessageID && got.SeqNo == d.SeqNo && int(got.MessageDataLen) == len(payload),
				"payload_equal": bytes.Equal(got.Data(), payload),
				"body_mod16":    (total - 24) % 16,
				"pad":           len(got.MessageDataWithPadding) - int(got.MessageDataLen)}
		case "tamper":
			s := tr.Str(in["side"])
			key := randKey(rng)
			payload := rbytes(rng, tr.Int(in["len"]))
			d := crypto.EncryptedMessageData{Salt: rng.Int63(), SessionID: rng.Int63(), MessageID: rng.Int63(), SeqNo: 3, Message: rawPayload(payload)}
			b := &bin.Buffer{}
			if err := cipherOf(s, &firstByte{b: byte(rng.Intn(256)), r: rng}).Encrypt(key, d, b); err != nil {
				panic(err)
			}
			ct := append([]byte(nil), b.Buf...)
			decSide := opp(s)
			dkey := key
			body := ct[24:]
			switch tr.Str(in["tamper"]) {
			case "flip_authkeyid":
				ct[rng.Intn(8)] ^= 1 << uint(rng.Intn(8))
			case "flip_msgkey":
				ct[8+rng.Intn(16)] ^= 1 << uint(rng.Intn(8))
			case "flip_body_first":
				body[rng.Intn(16)] ^= 1 << uint(rng.Intn(8))
			case "flip_body_mid":
				body[len(body)/2+rng.Intn(8)] ^= 1 << uint(rng.Intn(8))
			case "flip_body_last":
				body[len(body)-1-rng.Intn(16)] ^= 1 << uint(rng.Intn(8))
			case "truncate16":
				ct = ct[:len(ct)-16]
			case "truncate_odd":
				ct = ct[:len(ct)-1-rng.Intn(14)]
			case "extend16":
				ct = append(ct, rbytes(rng, 16)...)
			case "extend_odd":
				ct = append(ct, rbytes(rng, 1+rng.Intn(14))...)
			case "reflect":
				decSide = s
			case "foreign_key":
				dkey = randKey(rng)
			case "foreign_key_same_id":
				dkey = randKey(rng)
				dkey.ID = key.ID
			case "swap_blocks":
				n := len(body) / 16
				i, j := rng.Intn(n), rng.Intn(n)
				for i == j {
					j = rng.Intn(n)
				}
				var t [16]byte
				copy(t[:], body[i*16:])
				copy(body[i*16:i*16+16], body[j*16:j*16+16])
				copy(body[j*16:j*16+16], t[:])
			case "zero_msgkey":
				for i := 8; i < 24; i++ {
					ct[i] = 0
				}
			default:
				panic("bad tamper")
			}
			got, err := cipherOf(decSide, &firstByte{r: rng}).DecryptFromBuffer(dkey, &bin.Buffer{Buf: ct})
			return tr.M{"ok": err == nil, "leaked": got != nil}
		case "brute":
			sd := tr.Str(in["side"])
			key := randKey(rng)
			payload := rbytes(rng, tr.Int(in["len"]))
			d := crypto.EncryptedMessageData{Salt: rng.Int63(), SessionID: rng.Int63(), MessageID: rng.Int63(), SeqNo: 3, Message: rawPayload(payload)}
			b := &bin.Buffer{}
			if err := cipherOf(sd, &firstByte{b: byte(rng.Intn(256)), r: rng}).Encrypt(key, d, b); err != nil {
				panic(err)
			}
			dec := cipherOf(opp(sd), &firstByte{r: rng})
			tail := 16 * tr.Int(in["blocks"])
			accepted := 0
			for k := 0; k < tr.Int(in["n"]); k++ {
				ct := append([]byte(nil), b.Buf...)
				rng.Read(ct[len(ct)-tail:])
				if bytes.Equal(ct, b.Buf) {
					continue
				}
				if got, err := dec.DecryptFromBuffer(key, &bin.Buffer{Buf: ct}); err == nil || got != nil {
					accepted++
				}
			}
			return tr.M{"accepted": accepted}
		case "padding":
			key := randKey(rng)
			pad := tr.Int(in["pad"])
			// header (32) + payload + padding must fill whole AES blocks; payload stays a multiple of 4
			payload := rbytes(rng, (16-pad%16)%16+16*(1+rng.Intn(4)))
			ct := exactPadding(rng, key, "server", payload, pad, tr.Str(in["lenfield"]))
			got, err := cipherOf("client", &firstByte{r: rng}).DecryptFromBuffer(key, &bin.Buffer{Buf: ct})
			return tr.M{"ok": err == nil && got != nil, "nopanic": true}
		case "rsapad":
			k1, k2 := rsaKeys()
			data := rbytes(rng, tr.Int(in["len"]))
			var ct []byte
			var err error
			hashed := tr.Str(in["scheme"]) == "hashed"
			if hashed {
				ct, err = crypto.RSAEncryptHashed(data, &k1.PublicKey, rng)
			} else {
				ct, err = crypto.RSAPad(data, &k1.PublicKey, rng)
			}
			if err != nil {
				return tr.M{"encrypt_ok": false}
			}
			res := tr.M{"encrypt_ok": true, "ct_len": len(ct)}
			switch tr.Str(in["touched"]) {
			case "flip":
				ct[rng.Intn(len(ct))] ^= 1 << uint(rng.Intn(8))
			case "zero":
				for i := range ct {
					ct[i] = 0
				}
			}
			priv := k1
			if tr.Str(in["key"]) == "other" {
				priv = k2
			}
			var out []byte
			if hashed {
				out, err = crypto.RSADecryptHashed(ct, priv)
			} else {
				out, err = crypto.DecodeRSAPad(ct, priv)
			}
			res["decrypt_ok"] = err == nil
			if err == nil {
				if hashed {
					res["data_equal"] = bytes.Equal(out, data)
				} else {
					res["data_equal"] = len(out) == 192 && bytes.Equal(out[:len(data)], data)
				}
			}
			return res
		}
		panic("bad kind")
	}
}
