package main

import (
	"bytes"
	"compress/gzip"
	"encoding/binary"
	"math/rand"

	"github.com/gotd/td/bin"
	"github.com/gotd/td/proto"

	"verifharness/internal/tr"
)

func compressible(rng *rand.Rand, n int) []byte {
	b := make([]byte, n)
	k := n
	if k > 4096 {
		k = 4096
	}
	rng.Read(b[:k])
	if n > 8 {
		rng.Read(b[n-8:])
	}
	return b
}

func putI32(b []byte, off int, v int32) { binary.LittleEndian.PutUint32(b[off:], uint32(v)) }

func init() {
	modules["container"] = func(c tr.M, rng *rand.Rand) tr.M {
		in := tr.Map(c["in"])
		switch tr.Str(in["kind"]) {
		case "container":
			var cont proto.MessageContainer
			for _, s := range tr.List(in["sizes"]) {
				body := compressible(rng, tr.Int(s))
				cont.Messages = append(cont.Messages, proto.Message{ID: rng.Int63(), SeqNo: rng.Intn(1000), Bytes: len(body), Body: body})
			}
			b := &bin.Buffer{}
			if err := cont.Encode(b); err != nil {
				return tr.M{"encode_ok": false}
			}
			var back proto.MessageContainer
			if err := back.Decode(b); err != nil {
				return tr.M{"encode_ok": true, "decode_ok": false, "err": err.Error()}
			}
			eq := len(back.Messages) == len(cont.Messages) && b.Len() == 0
			for i := 0; eq && i < len(cont.Messages); i++ {
				x, y := cont.Messages[i], back.Messages[i]
				eq = x.ID == y.ID && x.SeqNo == y.SeqNo && x.Bytes == y.Bytes && bytes.Equal(x.Body, y.Body)
			}
			return tr.M{"encode_ok": true, "decode_ok": true, "equal": eq, "count": len(back.Messages)}
		case "badcontainer":
			cont := proto.MessageContainer{Messages: []proto.Message{
				{ID: 8, SeqNo: 1, Bytes: 16, Body: rbytes(rng, 16)}, {ID: 12, SeqNo: 3, Bytes: 8, Body: rbytes(rng, 8)}}}
			b := &bin.Buffer{}
			_ = cont.Encode(b)
			buf := b.Buf // [id 4][count 4][msgid 8][seq 4][len 4][body 16][msgid 8][seq 4][len 4][body 8]
			switch tr.Str(in["how"]) {
			case "count_plus1":
				putI32(buf, 4, 3)
			case "count_huge":
				putI32(buf, 4, 0x7fffffff)
			case "count_negative":
				putI32(buf, 4, -1)
				// a negative count decodes as an empty container: acceptable only as an error or as "no messages"
			case "len_negative":
				putI32(buf, 20, -4)
			case "len_too_big":
				putI32(buf, 20, 1024*1024+4)
			case "len_beyond":
				putI32(buf, 20, 4096)
			case "cut_header":
				buf = buf[:2]
			case "cut_count":
				buf = buf[:6]
			case "cut_msg_header":
				buf = buf[:8+10]
			case "cut_body":
				buf = buf[:8+16+7]
			case "wrong_id":
				buf[0] ^= 0xff
			case "empty":
				buf = nil
			}
			var back proto.MessageContainer
			err := back.Decode(&bin.Buffer{Buf: append([]byte(nil), buf...)})
			if tr.Str(in["how"]) == "count_negative" && err == nil && len(back.Messages) == 0 {
				return tr.M{"decode_ok": false, "nopanic": true, "note": "negative count read as empty container"}
			}
			return tr.M{"decode_ok": err == nil, "nopanic": true}
		case "result":
			body := rbytes(rng, tr.Int(in["size"]))
			r := proto.Result{RequestMessageID: rng.Int63(), Result: body}
			b := &bin.Buffer{}
			_ = r.Encode(b)
			var back proto.Result
			err := back.Decode(b)
			return tr.M{"decode_ok": err == nil, "equal": err == nil && back.RequestMessageID == r.RequestMessageID && bytes.Equal(back.Result, body)}
		case "badresult":
			r := proto.Result{RequestMessageID: 77, Result: rbytes(rng, 8)}
			b := &bin.Buffer{}
			_ = r.Encode(b)
			buf := b.Buf
			switch tr.Str(in["how"]) {
			case "wrong_id":
				buf[1] ^= 0x55
			case "cut_id":
				buf = buf[:3]
			case "cut_msgid":
				buf = buf[:9]
			case "empty":
				buf = nil
			}
			var back proto.Result
			return tr.M{"decode_ok": back.Decode(&bin.Buffer{Buf: buf}) == nil, "nopanic": true}
		case "unenc":
			data := rbytes(rng, tr.Int(in["size"]))
			u := proto.UnencryptedMessage{MessageID: rng.Int63(), MessageData: data}
			b := &bin.Buffer{}
			if err := u.Encode(b); err != nil {
				return tr.M{"decode_ok": false, "err": err.Error()}
			}
			var back proto.UnencryptedMessage
			err := back.Decode(b)
			return tr.M{"decode_ok": err == nil, "equal": err == nil && back.MessageID == u.MessageID && bytes.Equal(back.MessageData, data)}
		case "badunenc":
			u := proto.UnencryptedMessage{MessageID: 5, MessageData: rbytes(rng, 12)}
			b := &bin.Buffer{}
			_ = u.Encode(b)
			buf := b.Buf // [authkey 8][msgid 8][len 4][data]
			switch tr.Str(in["how"]) {
			case "authkey_nonzero":
				buf[3] = 1
			case "len_negative":
				putI32(buf, 16, -1)
			case "len_beyond":
				putI32(buf, 16, 4096)
			case "cut_authkey":
				buf = buf[:5]
			case "cut_msgid":
				buf = buf[:12]
			case "cut_len":
				buf = buf[:18]
			case "empty":
				buf = nil
			}
			var back proto.UnencryptedMessage
			return tr.M{"decode_ok": back.Decode(&bin.Buffer{Buf: buf}) == nil, "nopanic": true}
		case "gzip":
			data := compressible(rng, tr.Int(in["size"]))
			b := &bin.Buffer{}
			if err := (proto.GZIP{Data: data}).Encode(b); err != nil {
				return tr.M{"decode_ok": false, "err": "encode: " + err.Error(), "within": true}
			}
			var back proto.GZIP
			err := back.Decode(b)
			res := tr.M{"decode_ok": err == nil, "within": len(back.Data) <= 10*1024*1024}
			if err == nil {
				res["equal"] = bytes.Equal(back.Data, data)
			}
			return res
		case "gzipmulti":
			// several gzip members back to back inside one gzip_packed object
			var want []byte
			stream := &bytes.Buffer{}
			for _, m := range tr.List(in["members"]) {
				data := compressible(rng, tr.Int(m))
				want = append(want, data...)
				zw := gzip.NewWriter(stream)
				_, _ = zw.Write(data)
				_ = zw.Close()
			}
			b := &bin.Buffer{}
			b.PutID(proto.GZIPTypeID)
			b.PutBytes(stream.Bytes())
			var back proto.GZIP
			err := back.Decode(b)
			res := tr.M{"decode_ok": err == nil, "within": len(back.Data) <= 10*1024*1024}
			if err == nil {
				res["equal"] = bytes.Equal(back.Data, want)
			}
			return res
		case "badgzip":
			data := rbytes(rng, 2000)
			b := &bin.Buffer{}
			_ = (proto.GZIP{Data: data}).Encode(b)
			buf := b.Buf // [id 4][bytes header 1|4][gzip stream...]
			switch tr.Str(in["how"]) {
			case "not_gzip":
				nb := &bin.Buffer{}
				nb.PutID(proto.GZIPTypeID)
				nb.PutBytes(rbytes(rng, 100))
				buf = nb.Buf
			case "cut_stream":
				nb := &bin.Buffer{}
				nb.PutID(proto.GZIPTypeID)
				inner := &bin.Buffer{Buf: append([]byte(nil), buf[4:]...)}
				raw, _ := inner.Bytes()
				nb.PutBytes(raw[:len(raw)/2])
				buf = nb.Buf
			case "bad_crc":
				nb := &bin.Buffer{}
				nb.PutID(proto.GZIPTypeID)
				inner := &bin.Buffer{Buf: append([]byte(nil), buf[4:]...)}
				raw, _ := inner.Bytes()
				raw = append([]byte(nil), raw...)
				raw[len(raw)-6] ^= 0x10
				nb.PutBytes(raw)
				buf = nb.Buf
			case "wrong_id":
				buf[2] ^= 0x33
			case "empty":
				buf = nil
			case "cut_bytes_header":
				buf = buf[:6]
			}
			var back proto.GZIP
			return tr.M{"decode_ok": back.Decode(&bin.Buffer{Buf: buf}) == nil, "nopanic": true}
		}
		panic("bad kind")
	}
}
