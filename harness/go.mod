module verifharness

go 1.25.0

require (
	github.com/cenkalti/backoff/v4 v4.3.0
	github.com/go-faster/errors v0.8.0
	github.com/gotd/ige v0.3.0
	github.com/gotd/log v0.1.0
	github.com/gotd/neo v0.1.5
	github.com/gotd/td v0.0.0
)

require (
	github.com/andybalholm/brotli v1.2.1 // indirect
	github.com/cespare/xxhash/v2 v2.3.0 // indirect
	github.com/coder/websocket v1.8.15 // indirect
	github.com/go-faster/jx v1.2.0 // indirect
	github.com/go-faster/xor v1.0.0 // indirect
	github.com/klauspost/compress v1.19.1 // indirect
	github.com/refraction-networking/utls v1.8.2 // indirect
	github.com/segmentio/asm v1.2.1 // indirect
	github.com/yuin/goldmark v1.8.5 // indirect
	go.opentelemetry.io/otel v1.44.0 // indirect
	go.opentelemetry.io/otel/trace v1.44.0 // indirect
	go.uber.org/atomic v1.11.0 // indirect
	go.uber.org/multierr v1.11.0 // indirect
	golang.org/x/crypto v0.54.0 // indirect
	golang.org/x/net v0.57.0 // indirect
	golang.org/x/sync v0.22.0 // indirect
	golang.org/x/sys v0.47.0 // indirect
	rsc.io/qr v0.2.0 // indirect
)

replace github.com/gotd/td => /repo
