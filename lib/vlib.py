"""Shared machinery for /verif checks: TLC runner (gen + judge), Go driver build/run,
known-findings, evidence writer.  Python3 stdlib only."""
import json, os, re, shutil, subprocess, sys, time, hashlib, fcntl

VERIF = os.path.dirname(os.path.dirname(os.path.abspath(__file__)))
REPO = os.environ.get("VERIF_REPO", "/repo")
OUT = os.path.join(VERIF, "out")
JAR = "/opt/veriftools/tla/tla2tools.jar:/opt/veriftools/tla/CommunityModules-deps.jar"


class Infra(Exception):
    """Infrastructure failure: exit 2, never a violation."""


def log(*a):
    print(*a, flush=True)


def tier():
    return os.environ.get("VERIF_TIER", "quick")


def seed():
    try:
        return int(os.environ.get("VERIF_SEED", "1"))
    except ValueError:
        return 1


def outdir(pid, sub=None, clean=False):
    d = os.path.join(OUT, pid) if sub is None else os.path.join(OUT, pid, sub)
    if clean and os.path.isdir(d):
        shutil.rmtree(d, ignore_errors=True)
    os.makedirs(d, exist_ok=True)
    return d


# ---------------------------------------------------------------- TLC

class TLCResult:
    def __init__(self):
        self.generated = 0
        self.distinct = 0
        self.depth = 0
        self.ok = False          # finished without error
        self.violation = None    # name of violated invariant/property (str) or None
        self.lines = []          # PrintT JSON lines (decoded python objects)
        self.raw = ""
        self.wall = 0.0
        self.cmd = ""
        self.timeout = False


_JSON_STR = re.compile(r'^"(\{.*\}|\[.*\])"$')


def run_tlc(pid, name, specdir, module, cfg, *, workers="auto", timeout=600, simulate=None,
            depth=None, seed_=None, env=None, extra=None, dfs=False, heap=None, keep_lines=True,
            deadlock=False, line_sink=None, cache=False):
    """Run TLC on a scratch copy of specdir.  PrintT(ToJson(x)) lines are collected in .lines
    (or passed to line_sink(obj) when given).
    cache=True (design-half runs only: exhaustive checks of a model that read nothing from /repo and
    whose printed lines are not used): a run that PASSED is remembered under out/tlccache keyed by the
    hash of every .tla/.cfg it reads and of its options, so that the sibling checks that share the model
    (C24/C25/C26, C27/C28) do not repeat an identical exploration. Failures are never cached."""
    work = outdir(pid, "tlc_" + name, clean=True)
    ckey = None
    if cache and not os.environ.get("VERIF_NO_TLC_CACHE"):
        import hashlib
        h = hashlib.sha256()
        for d in (specdir, os.path.join(VERIF, "spec", "Common")):
            if os.path.isdir(d):
                for f in sorted(os.listdir(d)):
                    if f.endswith(".tla") or f == cfg:
                        h.update(f.encode() + b"\0" + open(os.path.join(d, f), "rb").read() + b"\0")
        h.update(repr((module, cfg, simulate, depth, seed_, extra, deadlock, sorted((env or {}).items()))).encode())
        ckey = os.path.join(VERIF, "out", "tlccache", h.hexdigest() + ".json")
        if os.path.exists(ckey):
            try:
                c = json.load(open(ckey))
                r = TLCResult()
                r.generated, r.distinct, r.depth, r.wall = c["generated"], c["distinct"], c["depth"], c["wall"]
                r.ok, r.returncode, r.cmd, r.raw, r.workdir, r.cached = True, 0, c["cmd"], c["raw"], work, True
                log("TLC %s %s: result of an identical earlier run reused (%d distinct states, %.0fs then)" % (module, cfg, r.distinct, r.wall))
                return r
            except Exception:
                pass
    for f in os.listdir(specdir):
        if f.endswith((".tla", ".cfg")):
            shutil.copy(os.path.join(specdir, f), work)
    # shared modules
    common = os.path.join(VERIF, "spec", "Common")
    if os.path.isdir(common):
        for f in os.listdir(common):
            if f.endswith(".tla") and not os.path.exists(os.path.join(work, f)):
                shutil.copy(os.path.join(common, f), work)
    meta = os.path.join(work, "meta")
    jopts = ["-XX:+UseParallelGC", "-Xss256m"]
    if heap:
        jopts.append("-Xmx" + heap)
    if dfs:
        jopts.append("-Dtlc2.tool.queue.IStateQueue=StateDeque")
    cmd = ["java"] + jopts + ["-cp", JAR, "tlc2.TLC", "-metadir", meta, "-config", cfg,
                              "-workers", str(workers), "-noGenerateSpecTE"]
    if not deadlock:
        cmd.append("-deadlock")  # -deadlock = do NOT check deadlock
    if simulate is not None:
        cmd += ["-simulate", simulate]
    if depth is not None:
        cmd += ["-depth", str(depth)]
    if seed_ is not None:
        cmd += ["-seed", str(seed_)]
    if extra:
        cmd += extra
    cmd.append(module)
    e = dict(os.environ)
    e.pop("JAVA_TOOL_OPTIONS", None)
    if env:
        e.update(env)
    r = TLCResult()
    r.cmd = " ".join(cmd)
    t0 = time.time()
    p = subprocess.Popen(cmd, cwd=work, env=e, stdout=subprocess.PIPE, stderr=subprocess.STDOUT,
                         text=True, errors="replace")
    raw = []
    import threading
    timer = threading.Timer(timeout, lambda: (setattr(r, "timeout", True), p.kill()))
    timer.start()
    try:
        for line in p.stdout:
            s = line.rstrip("\n")
            if s.startswith('"') and _JSON_STR.match(s):
                try:
                    obj = json.loads(json.loads(s))
                except Exception:
                    raw.append(s)
                    continue
                if line_sink is not None:
                    line_sink(obj)
                elif keep_lines:
                    r.lines.append(obj)
                continue
            raw.append(s)
        p.wait()
    finally:
        timer.cancel()
    r.wall = time.time() - t0
    r.raw = "\n".join(raw)
    with open(os.path.join(work, "tlc.log"), "w") as f:
        f.write(r.cmd + "\n" + r.raw + "\n")
    m = re.findall(r"(\d+) states generated, (\d+) distinct states found", r.raw)
    if m:
        r.generated, r.distinct = int(m[-1][0]), int(m[-1][1])
    m = re.search(r"depth of the complete state graph search is (\d+)", r.raw)
    if m:
        r.depth = int(m.group(1))
    m = re.search(r"Invariant (\S+) is violated", r.raw)
    if m:
        r.violation = m.group(1)
    m2 = re.search(r"Action property (\S+) is violated", r.raw)
    if m2:
        r.violation = m2.group(1)
    if "Temporal properties were violated" in r.raw:
        r.violation = r.violation or "temporal"
    if re.search(r"Assumption .* is false", r.raw):
        r.violation = r.violation or "assumption"
    if re.search(r"The postcondition .*? is violated|POSTCONDITION|Postcondition", r.raw) and "violated" in r.raw:
        r.violation = r.violation or "postcondition"
    r.ok = (p.returncode == 0) and not r.timeout
    r.returncode = p.returncode
    r.workdir = work
    if ckey and r.ok and not r.violation and r.distinct > 0:
        os.makedirs(os.path.dirname(ckey), exist_ok=True)
        tmp = ckey + ".%d" % os.getpid()
        with open(tmp, "w") as f:
            json.dump({"generated": r.generated, "distinct": r.distinct, "depth": r.depth, "wall": r.wall,
                       "cmd": r.cmd, "raw": "\n".join(r.raw.splitlines()[-30:])}, f)
        os.replace(tmp, ckey)
    return r


def tlc_must_pass(r, what):
    if r.timeout:
        raise Infra("TLC timeout in %s" % what)
    if r.violation or not r.ok:
        tail = "\n".join(r.raw.splitlines()[-40:])
        raise Infra("TLC run '%s' failed (violation=%s rc=%s):\n%s" % (what, r.violation, getattr(r, 'returncode', '?'), tail))
    return r


# ---------------------------------------------------------------- trace judge

def judge_traces(pid, name, specdir, module, cfg, trace_file, *, timeout=600, max_viol=20, dfs=True):
    """Validate a batched ndjson trace file (events separated by {"ev":"reset","trace":k,...})
    against a property-level trace spec.  The spec must print <<"REJECTED at line", l, "trace", k>>
    from its POSTCONDITION when the high-water mark is short of the end.
    Returns (accepted_count, rejected: list of (trace_no, line_no_in_file))."""
    with open(trace_file) as f:
        lines = f.readlines()
    # index traces
    starts = []  # (trace no, first line idx)
    for i, l in enumerate(lines):
        if '"ev":"reset"' in l.replace(" ", ""):
            try:
                starts.append((json.loads(l)["trace"], i))
            except Exception:
                raise Infra("bad reset line %d in %s" % (i, trace_file))
    if not starts:
        return 0, [], 0, 0
    rejected = []
    accepted = 0
    cur = 0  # index into starts
    states = 0
    transitions = 0
    rnd = 0
    while cur < len(starts) and len(rejected) < max_viol:
        rnd += 1
        part = os.path.join(outdir(pid, "judge_" + name), "part%d.ndjson" % rnd)
        first = starts[cur][1]
        with open(part, "w") as f:
            f.writelines(lines[first:])
        r = run_tlc(pid, "judge_%s_%d" % (name, rnd), specdir, module, cfg, workers=1, timeout=timeout,
                    env={"TRACE_FILE": part}, dfs=dfs)
        states += r.distinct
        transitions += r.generated
        if r.timeout:
            raise Infra("judge timeout on %s" % trace_file)
        m = re.search(r'"REJECTED at line", (\d+), "trace", (-?\d+)', r.raw)
        if m:
            ln = int(m.group(1))  # 1-based in part, line that could not be consumed
            tno = int(m.group(2))
            absline = first + ln - 1
            # find trace containing absline
            k = cur
            while k + 1 < len(starts) and starts[k + 1][1] <= absline:
                k += 1
            accepted += k - cur
            rejected.append((starts[k][0], absline))
            cur = k + 1
            continue
        if not r.ok:
            tail = "\n".join(r.raw.splitlines()[-30:])
            raise Infra("judge TLC failed on %s:\n%s" % (trace_file, tail))
        accepted += len(starts) - cur
        cur = len(starts)
    return accepted, rejected, states, transitions


def extract_trace(trace_file, trace_no):
    out = []
    on = False
    with open(trace_file) as f:
        for l in f:
            if '"ev":"reset"' in l.replace(" ", ""):
                on = json.loads(l).get("trace") == trace_no
            if on:
                out.append(json.loads(l))
    return out


# ---------------------------------------------------------------- Go harness

def goenv():
    e = dict(os.environ)
    e["GOFLAGS"] = "-mod=mod"
    e["GOPROXY"] = "off"
    e.pop("GOTOOLCHAIN", None)
    e.pop("GOSUMDB", None)
    e.setdefault("GOCACHE", os.path.expanduser("~/.cache/go-build"))
    return e


def build_driver(pid, cmdname, tags="verif"):
    """go build -tags verif harness/cmd/<cmdname> against /repo's current working tree."""
    h = os.path.join(VERIF, "harness")
    lock = open(os.path.join(OUT, ".build.lock"), "w")
    fcntl.flock(lock, fcntl.LOCK_EX)
    try:
        src = os.path.join(REPO, "go.sum")
        dst = os.path.join(h, "go.sum")
        try:
            if not os.path.exists(dst) or open(src, "rb").read() != open(dst, "rb").read():
                shutil.copy(src, dst)
        except OSError:
            pass
        binp = os.path.join(outdir(pid, "bin"), cmdname)
        t0 = time.time()
        # VERIF_GO_RACE=1: development audit of the harness itself with the Go race detector
        race = ["-race"] if os.environ.get("VERIF_GO_RACE") else []
        p = subprocess.run(["go", "build"] + race + ["-tags", tags, "-o", binp, "./cmd/" + cmdname], cwd=h,
                           env=goenv(), stdout=subprocess.PIPE, stderr=subprocess.STDOUT, text=True)
        if p.returncode != 0:
            raise Infra("harness build failed (%s):\n%s" % (cmdname, p.stdout[-4000:]))
        log("built %s in %.1fs" % (cmdname, time.time() - t0))
        return binp
    finally:
        fcntl.flock(lock, fcntl.LOCK_UN)
        lock.close()


def run_driver(binp, args, *, timeout=900, stdin=None, env=None, ok_codes=(0,)):
    e = goenv()
    e["VERIF_SEED"] = str(seed())
    e["VERIF_TIER"] = tier()
    if env:
        e.update(env)
    t0 = time.time()
    try:
        p = subprocess.run([binp] + args, env=e, stdout=subprocess.PIPE, stderr=subprocess.PIPE, text=True,
                           timeout=timeout, input=stdin, errors="replace")
    except subprocess.TimeoutExpired:
        raise Infra("driver timeout: %s %s" % (binp, " ".join(args)))
    if p.returncode not in ok_codes:
        raise Infra("driver died rc=%d: %s %s\nstdout: %s\nstderr: %s" % (p.returncode, binp, " ".join(args),
                                                                          p.stdout[-2000:], p.stderr[-4000:]))
    return p


def read_ndjson(path):
    out = []
    with open(path) as f:
        for l in f:
            l = l.strip()
            if l:
                out.append(json.loads(l))
    return out


def write_ndjson(path, objs):
    with open(path, "w") as f:
        for o in objs:
            f.write(json.dumps(o, separators=(",", ":"), sort_keys=True) + "\n")


# ---------------------------------------------------------------- findings

def load_known(pid):
    known = []
    p = os.path.join(VERIF, "KNOWN_FINDINGS.txt")
    if os.path.exists(p):
        for l in open(p):
            l = l.strip()
            m = re.match(r"known:\s+property=(\S+)\s+sig=(\S+)\s*(.*)", l)
            if m and m.group(1) == pid:
                known.append((m.group(2), m.group(3)))
    return known


def manifest_level(pid):
    try:
        for c in json.load(open(os.path.join(VERIF, "MANIFEST.json")))["checks"]:
            if c["property_id"] == pid:
                return c["level_claimed"]["category"]
    except (OSError, ValueError, KeyError):
        pass
    return None


class Verdict:
    """Collects violations (each with a signature) and decides the exit code."""

    def __init__(self, pid):
        self.pid = pid
        self.known = load_known(pid)
        self.viol = []       # (sig, what, payload)
        self.known_hit = {}  # sig -> what
        self.t0 = time.time()

    def violation(self, sig, what, payload):
        for ks, kw in self.known:
            if ks == sig:
                self.known_hit.setdefault(sig, kw or what)
                return
        self.viol.append((sig, what, payload))

    def finish(self, level, coverage, assumptions=None):
        pid = self.pid
        # MANIFEST.json is the single source of truth for the level a check claims
        level = manifest_level(pid) or level
        for sig, what in sorted(self.known_hit.items()):
            log("KNOWN-FINDING: property=%s sig=%s %s" % (pid, sig, what))
        vdir = outdir(pid, "violations", clean=True)
        seen = set()
        n = 0
        for sig, what, payload in self.viol:
            if sig in seen:
                continue
            seen.add(sig)
            n += 1
            if n > 20:
                break
            path = os.path.join(vdir, "v%02d.json" % n)
            with open(path, "w") as f:
                json.dump({"property": pid, "sig": sig, "what": what, "case": payload}, f, indent=1, default=str)
            log("VIOLATION property=%s replay=%s" % (pid, path))
            log("  sig=%s %s" % (sig, what))
        ev = {
            "property_id": pid, "tier": tier(), "seed": seed(), "level": level,
            "coverage": coverage, "assumptions": assumptions or [],
            "wall_s": round(time.time() - self.t0, 2), "violations": len(seen),
            "known_findings_hit": sorted(self.known_hit.keys()),
        }
        os.makedirs(os.path.join(VERIF, "evidence"), exist_ok=True)
        with open(os.path.join(VERIF, "evidence", pid + ".json"), "w") as f:
            json.dump(ev, f, indent=1, default=str)
        log("%s: %s  (%d violations, %d known findings, %.1fs)" % (
            pid, "FAIL" if seen else "PASS", len(seen), len(self.known_hit), time.time() - self.t0))
        return 1 if seen else 0


def compare_expect(expect, got, path=""):
    """expect ⊆ got (recursively for dicts); returns list of differing paths."""
    diffs = []
    if isinstance(expect, dict):
        if not isinstance(got, dict):
            return [path or "."]
        for k, v in expect.items():
            if k not in got:
                diffs.append(path + "/" + k + "(missing)")
            else:
                diffs += compare_expect(v, got[k], path + "/" + k)
        return diffs
    if isinstance(expect, list):
        if not isinstance(got, list) or len(got) != len(expect):
            return [path or "."]
        for i, (a, b) in enumerate(zip(expect, got)):
            diffs += compare_expect(a, b, "%s[%d]" % (path, i))
        return diffs
    if expect != got:
        return [path or "."]
    return []
