import json,jsonschema,glob,sys
jsonschema.validate(json.load(open('/verif/MANIFEST.json')), json.load(open('/root/.vp/MANIFEST.schema.json')))
s=json.load(open('/root/.vp/EVIDENCE.schema.json'))
for f in sorted(glob.glob('/verif/evidence/*.json')):
    try:
        jsonschema.validate(json.load(open(f)), s)
    except Exception as e:
        print('INVALID', f, str(e)[:300]); 
man={c['property_id']:c for c in json.load(open('/verif/MANIFEST.json'))['checks']}
import os
for pid,c in man.items():
    f=c['evidence_file']
    if not os.path.exists(f):
        print('MISSING', f); continue
    ev=json.load(open(f))
    if ev['level']!=c['level_claimed']['category'] or ev['property_id']!=pid:
        print('LEVEL-MISMATCH', f, ev['level'], c['level_claimed']['category'])
print('validated')
