#!/usr/bin/env python3
"""Regenerates the seeded-change table of DESIGN.md section 13 from seeded/results.tsv and seeded/*/meta.json."""
import json, os, re, collections
V = os.path.dirname(os.path.dirname(os.path.abspath(__file__)))
res = collections.defaultdict(dict)
for l in open(os.path.join(V, "seeded", "results.tsv")).read().splitlines()[1:]:
    f = l.split("\t")
    if len(f) >= 3:
        res[f[0]][f[1]] = f[2]

def short(d):
    m = os.path.join(d, "meta.json")
    txt = ""
    files = ""
    if os.path.exists(m):
        j = json.load(open(m))
        txt = j.get("what_breaks", "") or j.get("origin", "")
        files = ", ".join(j.get("files_changed", []))
    elif os.path.exists(os.path.join(d, "notes.md")):
        body = open(os.path.join(d, "notes.md")).read()
        lines = [x.strip() for x in body.splitlines() if x.strip() and not x.startswith("#")]
        txt = " ".join(lines[:3])
    txt = re.sub(r"\s+", " ", txt).replace("|", "/")
    if len(txt) > 230:
        txt = txt[:227] + "..."
    return files, txt

def prop_of(name):
    m = re.match(r"(C\d\d)", name)
    return m.group(1) if m else ""

rows = []
for name in sorted(os.listdir(os.path.join(V, "seeded"))):
    d = os.path.join(V, "seeded", name)
    if not os.path.isdir(d):
        continue
    files, txt = short(d)
    r = res.get(name, {})
    caught = sorted(c for c, o in r.items() if o == "caught")
    own = prop_of(name)
    missed_own = [c for c, o in r.items() if o == "missed" and (c == own or not own)]
    status = ", ".join(caught) if caught else ("**missed** (%s)" % ", ".join(missed_own) if missed_own else "not run")
    rows.append("| `%s` | %s | %s | %s |" % (name, files or "-", txt or "-", status))
table = "| seed | files | what it breaks | caught by (quick tier) |\n|---|---|---|---|\n" + "\n".join(rows) + "\n"
import sys
if "--update" in sys.argv:
    dp = os.path.join(V, "DESIGN.md")
    d = open(dp).read()
    mark = "<!-- SEEDTABLE -->"
    i = d.index(mark)
    open(dp, "w").write(d[:i] + mark + "\n\n" + table)
else:
    print(table)
