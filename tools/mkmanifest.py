#!/usr/bin/env python3
"""Regenerates MANIFEST.json from checks/registry.json + tools/manifest_meta.json."""
import json, os, subprocess
H = os.path.dirname(os.path.dirname(os.path.abspath(__file__)))
reg = json.load(open(os.path.join(H, "checks", "registry.json")))
meta = json.load(open(os.path.join(H, "tools", "manifest_meta.json")))
props = [json.loads(l)["id"] for l in open(os.path.join(H, "properties.jsonl"))]
hooks = subprocess.run(["git", "-C", "/repo", "log", "--format=%H %s"], capture_output=True, text=True).stdout.splitlines()
hook_commits = [l.split()[0] for l in hooks if " verif hooks" in l or l.split(" ", 1)[1].startswith("verif hook")]
checks = []
for pid in props:
    if pid not in reg:
        continue
    m = meta["checks"][pid]
    checks.append({
        "property_id": pid,
        "quick_cmd": "VERIF_TIER=quick ./check %s" % pid,
        "thorough_cmd": "VERIF_TIER=thorough ./check %s" % pid,
        "evidence_file": "/verif/evidence/%s.json" % pid,
        "replay_cmd_template": "./check %s --replay {path}" % pid,
        "engine": m.get("engine", "tlc+go"),
        "level_claimed": {"category": m["level"], "text": m["text"], "design_ref": m.get("design_ref", "DESIGN.md §6 " + pid)},
        "level_note": m["note"],
        "technique": m["technique"],
    })
na = [{"property_id": pid, "reason": meta["not_applicable"].get(pid, "check not built yet in this session (planned, see DESIGN.md §6)")}
      for pid in props if pid not in reg]
man = {
    "version": 1,
    "setup_cmd": "sh tools/setup.sh",
    "hooks": {
        "guard": "verif",
        "enable": "go build -tags verif (harness module /verif/harness with replace github.com/gotd/td => /repo)",
        "baseline_off_cmd": "cd /repo && GOFLAGS=-mod=mod GOPROXY=off go test -vet=off -count=1 -timeout 25m ./...",
        "source_commits": hook_commits,
        "add_only": True,
    },
    "engines": [
        {"name": "tlc+go", "path": "/verif/check", "serves_properties": [c["property_id"] for c in checks],
         "kind_free_text": "TLA+ specs under /verif/spec checked by TLC (exhaustive / simulate); TLC-generated edges and behaviours are replayed into the real code by Go drivers under /verif/harness (built with -tags verif from /repo's working tree); recorded traces are validated by TLC against property-level trace specs"}
    ],
    "checks": checks,
    "not_applicable": na,
    "notes": meta.get("notes", ""),
}
json.dump(man, open(os.path.join(H, "MANIFEST.json"), "w"), indent=1)
print("MANIFEST.json: %d checks, %d not_applicable" % (len(checks), len(na)))
