import json,sys
for f in sys.argv[1:]:
    d=json.load(open(f))
    print(f, d['sig'])
    c=d['case']
    h=(c.get('case') or {}).get('hist') or []
    print('  behaviour:', ' '.join((x['a']+str(x.get('i',x.get('j','')))+(x.get('br','') or '')+('' if x.get('ok',True) else '!')) for x in h))
    print('  trace:', ' | '.join(e['ev']+str(e.get('i',e.get('j','')))+(':'+str(e.get('err')) if 'err' in e else '') for e in c['trace']))
    print('  rejected:', c['rejected_event'])
