#!/usr/bin/env python3
"""Rebuilds seeded/results.tsv from the logs of tools/seedtest.sh (out/seedlogs/<seed>_<check>.log): the latest run of
every (seed, check) pair.  caught = the check exited with a VIOLATION line; missed = it passed; infra = anything else."""
import os, re, glob
V = os.path.dirname(os.path.dirname(os.path.abspath(__file__)))
old = {}
p = os.path.join(V, "seeded", "results.tsv")
if os.path.exists(p):
    for l in open(p).read().splitlines()[1:]:
        f = l.split("\t")
        if len(f) >= 3:
            old[(f[0], f[1])] = f + [""] * (4 - len(f))
for fn in glob.glob(os.path.join(V, "out", "seedlogs", "*.log")):
    m = re.match(r"(.+)_(C\d\d)\.log$", os.path.basename(fn))
    if not m:
        continue
    txt = open(fn, errors="replace").read()
    tail = txt[-3000:]
    sig = ""
    ms = re.search(r"^\s+sig=(\S+)", txt, re.M)
    if ms:
        sig = ms.group(1)
    if re.search(r"^VIOLATION property=", txt, re.M) and ": FAIL" in tail:
        out = "caught"
    elif re.search(r": PASS\s+\(", tail):
        out = "missed"
    else:
        out = "infra"
    old[(m.group(1), m.group(2))] = [m.group(1), m.group(2), out, sig]
with open(p, "w") as f:
    f.write("seed\tcheck\tquick-tier outcome\tfirst violation signature\n")
    for k in sorted(old):
        f.write("\t".join(old[k][:4]) + "\n")
print(len(old), "rows")
