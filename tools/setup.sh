#!/bin/sh
# offline setup: scratch dir, go.sum for the harness module, syntax check of all specs
set -e
cd /verif
mkdir -p out evidence
cp /repo/go.sum harness/go.sum
export GOFLAGS=-mod=mod GOPROXY=off
(cd harness && go build -tags verif ./... ) || { echo "harness build failed"; exit 1; }
for f in spec/*/*.tla; do
  d=$(dirname $f); m=$(basename $f .tla)
  (cd $d && java -cp /opt/veriftools/tla/tla2tools.jar:/opt/veriftools/tla/CommunityModules-deps.jar tla2sany.SANY $m.tla >/dev/null 2>&1) || { echo "SANY failed: $f"; exit 1; }
done
echo setup ok
