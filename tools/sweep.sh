#!/bin/sh
# usage: tools/sweep.sh <tier> [seed] [ids...]   runs every registered check, prints one line per check
tier=$1; seed=${2:-1}; shift 2 2>/dev/null
ids="$@"
[ -z "$ids" ] && ids=$(python3 -c "import json;print(' '.join(c['property_id'] for c in json.load(open('MANIFEST.json'))['checks']))")
mkdir -p out/sweep
for p in $ids; do
  t0=$(date +%s)
  VERIF_TIER=$tier VERIF_SEED=$seed ./check $p > out/sweep/${p}_${tier}_$seed.log 2>&1; rc=$?
  echo "$p tier=$tier seed=$seed rc=$rc wall=$(( $(date +%s) - t0 ))s $(grep -c '^VIOLATION' out/sweep/${p}_${tier}_$seed.log) violations $(grep -c '^KNOWN-FINDING' out/sweep/${p}_${tier}_$seed.log) known $(grep -c 'DRIFT' out/sweep/${p}_${tier}_$seed.log) drift"
done
