#!/bin/sh
# usage: confirm3.sh <id>...   (reads /tmp/wt/<id>/SEEDED/meta.json)
for id in "$@"; do
m=/tmp/wt/$id/SEEDED/meta.json
pkg=$(python3 -c "import json;print(json.load(open('$m'))['demo_pkg'].strip('./'))")
re=$(python3 -c "import json;print(json.load(open('$m'))['demo_run_regex'])")
pkgs=$(python3 -c "
import json,re
m=json.load(open('$m'))
s=set()
for c in m['existing_tests_run']:
    for t in c.split():
        if t.startswith('./'): s.add(t.rstrip('/'))
s.add('./'+m['demo_pkg'].strip('./'))
print(' '.join(sorted(x for x in s if '...' not in x)))")
sh /verif/tools/confirm_seed.sh $id $pkg "$re" $pkgs
done
