#!/bin/sh
# dev helper: tlcq.sh <specdir> <module> <cfg> [extra tlc args]  (runs in a scratch copy under /tmp/tlcq)
d=$1; m=$2; c=$3; shift 3
w=/tmp/tlcq/$$; rm -rf $w; mkdir -p $w; cp $d/*.tla $d/*.cfg $w/; cd $w
timeout ${TLC_TIMEOUT:-900} java -XX:+UseParallelGC -Xss256m -cp /opt/veriftools/tla/tla2tools.jar:/opt/veriftools/tla/CommunityModules-deps.jar tlc2.TLC -metadir $w/meta -config $c -workers ${TLC_WORKERS:-16} -deadlock -noGenerateSpecTE "$@" $m 2>&1 | grep -v -e '^Parsing file' -e '^Semantic processing'
rm -rf $w
