#!/bin/sh
# usage: install.sh <suffix> <id>...
suf=$1; shift
for id in "$@"; do d=/verif/seeded/$id-$suf; mkdir -p $d; cp /tmp/wt/$id/SEEDED/patch.diff /tmp/wt/$id/SEEDED/zz_seeded_demo_test.go $d/; python3 - $id $suf <<'P'
import json,sys
id,suf=sys.argv[1],sys.argv[2]
m=json.load(open('/tmp/wt/%s/SEEDED/meta.json'%id))
m['confirmed_by_me']="tools/confirm_seed.sh in a scratch worktree: demo fails with patch, passes without, go build ./... ok, existing package tests pass with patch"
m['round']=int(suf)
json.dump(m,open('/verif/seeded/%s-%s/meta.json'%(id,suf),'w'),indent=1)
P
done
