#!/bin/sh
# usage: tools/seedtest.sh <seeded-dir-name> <check id>...   — applies seeded/<name>/patch.diff to /repo, runs checks, reverts.
set -u
name=$1; shift
cd /verif
git -C /repo apply --3way /verif/seeded/$name/patch.diff 2>/dev/null || git -C /repo apply /verif/seeded/$name/patch.diff || { echo "patch does not apply"; exit 3; }
git -C /repo reset -q
for id in "$@"; do
  ./check $id > out/seed_${name}_$id.log 2>&1; rc=$?
  echo "seed=$name check=$id rc=$rc $(grep -c '^VIOLATION' out/seed_${name}_$id.log) violation lines"
  grep -A1 '^VIOLATION' out/seed_${name}_$id.log | head -6
done
git -C /repo checkout -- .
git -C /repo status --short | head
