#!/bin/sh
# usage: tools/seedtest.sh <seeded-dir-name> <check id>...
# Runs the given checks against gotd/td with seeded/<name>/patch.diff applied, in an isolated scratch
# copy (worktree of /repo + copy of /verif under /tmp/mt/<name>), so /repo itself is never touched.
set -u
name=$1; shift
S=/tmp/mt/$name
rm -rf $S; mkdir -p $S
git -C /repo worktree prune
git -C /repo worktree add --detach $S/repo HEAD >/dev/null 2>&1 || { echo "worktree failed"; exit 3; }
( cd $S/repo && (git apply --3way /verif/seeded/$name/patch.diff >/dev/null 2>&1 || git apply /verif/seeded/$name/patch.diff) ) || { echo "seed=$name: patch does not apply"; git -C /repo worktree remove --force $S/repo; exit 3; }
rsync -a --exclude out --exclude .git --exclude evidence /verif/ $S/verif/
sed -i "s#=> /repo#=> $S/repo#" $S/verif/harness/go.mod
mkdir -p $S/verif/out $S/verif/evidence /verif/out/seedlogs
for id in "$@"; do
  ( cd $S/verif && VERIF_REPO=$S/repo ./check $id ) > /verif/out/seedlogs/${name}_$id.log 2>&1; rc=$?
  echo "seed=$name check=$id rc=$rc violations=$(grep -c '^VIOLATION' /verif/out/seedlogs/${name}_$id.log) $(grep -m1 '  sig=' /verif/out/seedlogs/${name}_$id.log | cut -c1-160)"
done
git -C /repo worktree remove --force $S/repo
rm -rf $S
