#!/bin/sh
# usage: confirm_seed.sh <id> <demo pkg> <run regex> <existing test pkgs...>
# In worktree /tmp/wt/<id>: demo must FAIL with patch, PASS without; existing tests must pass with patch (demo excluded).
id=$1; pkg=$2; re=$3; shift 3
wt=/tmp/wt/$id
export GOFLAGS=-mod=mod GOPROXY=off
cd $wt || exit 9
git checkout -q -- . ; git apply SEEDED/patch.diff || { echo "$id: patch does not apply"; exit 9; }
cp SEEDED/zz_seeded_demo_test.go $pkg/ 2>/dev/null
go test -count=1 -run "$re" ./$pkg/ > /tmp/wt/$id.with.log 2>&1; with=$?
git apply -R SEEDED/patch.diff
go test -count=1 -run "$re" ./$pkg/ > /tmp/wt/$id.without.log 2>&1; without=$?
git apply SEEDED/patch.diff
mv $pkg/zz_seeded_demo_test.go /tmp/wt/$id.demo.go
go build ./... > /tmp/wt/$id.build.log 2>&1; b=$?
go test -count=1 "$@" > /tmp/wt/$id.existing.log 2>&1; ex=$?
mv /tmp/wt/$id.demo.go $pkg/zz_seeded_demo_test.go
echo "CONFIRM $id: demo_with_patch_rc=$with (want !=0) demo_without_rc=$without (want 0) build_rc=$b existing_rc=$ex (want 0)"
