----------------------------- MODULE MsgIdBuf -----------------------------
(* C07 (replay window): implementation-shaped model of proto.MessageIDBuf.  *)
(*   Fixed = FALSE: minimum search starts from 0, so only slot 1 is ever     *)
(*                  replaced (code before the repair)                        *)
(*   Fixed = TRUE : minimum search starts from the first slot                *)
EXTENDS Integers, Sequences, FiniteSets, TLC, Json

CONSTANTS N, MaxID, MaxCalls, Fixed

VARIABLES buf, last, calls, hist, bad
vars == <<buf, last, calls, hist, bad>>
View == <<buf, last, calls>>

Init == buf = [k \in 1..N |-> 0] /\ last = <<>> /\ calls = 0 /\ hist = <<>> /\ bad = FALSE

\* index / value of the minimum as the Go loop computes it
RECURSIVE MinScan(_, _, _, _)
MinScan(b, k, mi, mv) == IF k > N THEN <<mi, mv>>
                         ELSE IF b[k] < mv THEN MinScan(b, k + 1, k, b[k]) ELSE MinScan(b, k + 1, mi, mv)
MinOf(b) == IF Fixed THEN MinScan(b, 1, 1, b[1]) ELSE MinScan(b, 1, 1, 0)

Dup(b, id) == \E k \in 1..N : b[k] = id
Accepts(b, id) == ~Dup(b, id) /\ ~(id < MinOf(b)[2])

\* the property's own notion: last N accepted ids
LastN(s) == IF Len(s) <= N THEN s ELSE SubSeq(s, Len(s) - N + 1, Len(s))
InSeq(s, x) == \E k \in 1..Len(s) : s[k] = x
Replay(l, id) == InSeq(l, id) \/ (Len(l) = N /\ \A k \in 1..N : id < l[k])

Consume(id) ==
  /\ calls < MaxCalls /\ calls' = calls + 1
  /\ IF Accepts(buf, id)
     THEN /\ buf' = [buf EXCEPT ![MinOf(buf)[1]] = id]
          /\ last' = LastN(Append(last, id))
          /\ bad' = (bad \/ Replay(last, id))
     ELSE UNCHANGED <<buf, last, bad>>
  /\ hist' = Append(hist, id)

Next == \E id \in 1..MaxID : Consume(id)
Spec == Init /\ [][Next]_vars

NoReplayAccepted == [][~bad']_vars
Dump == (Len(hist) = MaxCalls) => PrintT(ToJson([n |-> N, hist |-> hist]))
=============================================================================
