CONSTANTS Fixed = TRUE MaxCalls = 12 Start = 999999000
INIT Init
NEXT Next
CONSTRAINT Dump
CHECK_DEADLOCK FALSE
