CONSTANTS N = 3 MaxID = 5 MaxCalls = 6 Fixed = TRUE
INIT Init
NEXT Next
PROPERTIES NoReplayAccepted
CONSTRAINT Dump
CHECK_DEADLOCK FALSE
