---------------------------- MODULE MsgRecvProp ----------------------------
(* Property-level trace judge for the replay clause of C07: a message id is  *)
(* accepted only if it is not equal to any of the last N accepted ids and    *)
(* not lower than all of them once N are stored.                             *)
EXTENDS Integers, Sequences, TLC, Json, IOUtils
Trace == ndJsonDeserialize(IOEnv.TRACE_FILE)
VARIABLES i, tr, last, n
vars == <<i, tr, last, n>>
Ev == Trace[i]
Init == i = 1 /\ tr = -1 /\ last = <<>> /\ n = 1
LastN(s) == IF Len(s) <= n THEN s ELSE SubSeq(s, Len(s) - n + 1, Len(s))
InSeq(s, x) == \E k \in 1..Len(s) : s[k] = x
Replay(l, id) == InSeq(l, id) \/ (Len(l) = n /\ \A k \in 1..n : id < l[k])
Reset == Ev.ev = "reset" /\ tr' = Ev.trace /\ last' = <<>> /\ n' = Ev.n
Consume == /\ Ev.ev = "consume"
           /\ Ev.accepted => ~Replay(last, Ev.id)
           /\ last' = (IF Ev.accepted THEN LastN(Append(last, Ev.id)) ELSE last)
           /\ UNCHANGED <<tr, n>>
Next == i <= Len(Trace) /\ i' = i + 1 /\ (Reset \/ Consume)
Spec == Init /\ [][Next]_vars
Mark == TLCSet(1, i) /\ TLCSet(2, tr)
Accepted == IF TLCGet(1) = Len(Trace) + 1 THEN TRUE
            ELSE PrintT(<<"REJECTED at line", TLCGet(1), "trace", TLCGet(2)>>) /\ FALSE
=============================================================================
