----------------------------- MODULE MsgIdGen -----------------------------
(* C08: outgoing message ids (proto.MessageIDGen.New) and sequence numbers   *)
(* (mtproto.Conn.nextMsgSeq, one atomic step under reqMux).                   *)
(* Times are nanoseconds relative to a base that is a whole number of         *)
(* seconds, so rounding the nanosecond part of an id to a multiple of 4       *)
(* equals rounding the relative time (10^9 is divisible by 4); ids are         *)
(* compared through their (seconds, nanoseconds) reading = relative time.     *)
(*   Fixed = FALSE: New compares raw nanoseconds (code before the repair)     *)
(*   Fixed = TRUE : New compares / advances on the 4 ns grid                  *)
EXTENDS Integers, Sequences, TLC, Json

CONSTANTS Fixed, MaxCalls, Start

\* clock steps: frozen, sub-resolution advances, backward jumps, coarse steps, one second
Deltas == {-1000000000, -5, -1, 0, 1, 2, 3, 4, 5, 9, 10, 11, 12, 1000000000}

VARIABLES g, clk, id, calls, content, seq, hist
vars == <<g, clk, id, calls, content, seq, hist>>
View == <<g, clk, id, calls, content>>

Round4(x) == x - (x % 4)
Init == g = 0 /\ clk = Start /\ id = -4 /\ calls = 0 /\ content = 0 /\ seq = -1 /\ hist = <<>>

\* one generated message: clock moves by d, then New(), then the seqno arithmetic
NewMsg(d, isContent) ==
  /\ calls < MaxCalls /\ d >= -clk /\ d < 2100000000 - clk
  /\ clk' = clk + d
  /\ LET t == IF Fixed THEN Round4(clk') ELSE clk'
         step == IF Fixed THEN 12 ELSE 10 IN
     g' = IF t > g THEN t ELSE g + step
  /\ id' = Round4(g')
  /\ calls' = calls + 1
  /\ content' = IF isContent THEN content + 1 ELSE content
  /\ seq' = IF isContent THEN 2 * content + 1 ELSE 2 * content
  /\ hist' = Append(hist, [d |-> d, content |-> isContent])

Next == \E d \in Deltas, c \in BOOLEAN : NewMsg(d, c)
Spec == Init /\ [][Next]_vars

\* properties (C08)
StrictlyIncreasing == [][id' > id]_vars
ClientTyped == id % 4 = 0
TimeNotBehindClock == calls > 0 => id >= Round4(clk)
SeqOdd == [][(seq' % 2 = 1) <=> (content' = content + 1)]_vars

Edge == PrintT(ToJson([from |-> [g |-> g, clk |-> clk, content |-> content], d |-> clk' - clk,
                       iscontent |-> (content' # content), to |-> [id |-> id', seq |-> seq']]))
Dump == PrintT(ToJson([start |-> Start, hist |-> hist]))
=============================================================================
