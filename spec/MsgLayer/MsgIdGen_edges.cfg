CONSTANTS Fixed = TRUE MaxCalls = 3 Start = 999999990
INIT Init
NEXT Next
VIEW View
ACTION_CONSTRAINT Edge
CHECK_DEADLOCK FALSE
