----------------------------- MODULE MsgIdProp -----------------------------
(* Property-level trace judge for C08 over generated (message id, seqno).    *)
(* Events: reset, new(clk, t, mod4) — t is the time encoded in the id        *)
(* relative to the trace base, mod4 = id % 4; msg(t, seq, content) for       *)
(* connection-level frames listed in message-id order.                       *)
EXTENDS Integers, Sequences, TLC, Json, IOUtils

Trace == ndJsonDeserialize(IOEnv.TRACE_FILE)
VARIABLES i, tr, last, n, content
vars == <<i, tr, last, n, content>>
Ev == Trace[i]
Init == i = 1 /\ tr = -1 /\ last = -1 /\ n = 0 /\ content = 0

Reset == Ev.ev = "reset" /\ tr' = Ev.trace /\ last' = -1 /\ n' = 0 /\ content' = 0
\* strictly greater than all previous ids, client typed, time not before the previous id and not
\* behind the clock reading (4 ns grid), and within 12 ns per call of the largest reading so far
New == /\ Ev.ev = "new"
       /\ Ev.t > last /\ Ev.mod4 = 0
       /\ Ev.t >= Ev.clk - 3
       /\ Ev.t <= Ev.maxclk + 12 * (n + 1)
       /\ last' = Ev.t /\ n' = n + 1 /\ UNCHANGED <<tr, content>>
\* frames in message-id order: content -> 2k+1 (k earlier content messages), service -> 2k
Msg == /\ Ev.ev = "msg"
       /\ Ev.t > last /\ Ev.mod4 = 0
       /\ Ev.seq = (IF Ev.content THEN 2 * content + 1 ELSE 2 * content)
       /\ last' = Ev.t /\ n' = n + 1 /\ content' = (IF Ev.content THEN content + 1 ELSE content) /\ UNCHANGED tr
Next == i <= Len(Trace) /\ i' = i + 1 /\ (Reset \/ New \/ Msg)
Spec == Init /\ [][Next]_vars
Mark == TLCSet(1, i) /\ TLCSet(2, tr)
Accepted == IF TLCGet(1) = Len(Trace) + 1 THEN TRUE
            ELSE PrintT(<<"REJECTED at line", TLCGet(1), "trace", TLCGet(2)>>) /\ FALSE
=============================================================================
