CONSTANTS N = 4 MaxID = 9 MaxCalls = 16 Fixed = TRUE
INIT Init
NEXT Next
CONSTRAINT Dump
CHECK_DEADLOCK FALSE
