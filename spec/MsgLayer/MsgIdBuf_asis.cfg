CONSTANTS N = 3 MaxID = 5 MaxCalls = 6 Fixed = FALSE
INIT Init
NEXT Next
PROPERTIES NoReplayAccepted

CHECK_DEADLOCK FALSE
