CONSTANTS Fixed = FALSE MaxCalls = 4 Start = 999999990
INIT Init
NEXT Next
VIEW View
INVARIANTS ClientTyped TimeNotBehindClock
PROPERTIES StrictlyIncreasing SeqOdd
CHECK_DEADLOCK FALSE
