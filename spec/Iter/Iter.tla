------------------------------- MODULE Iter -------------------------------
(* C39: history and dialog iterators yield every item once, in server order. *)
(* The server holds items 1..N in server order (item k has a strictly        *)
(* decreasing id); a page request (offset = position of the last item seen,  *)
(* limit) is answered per response kind. The iterator is transcribed as a    *)
(* recursive function; TLC checks yielded = history on every case and dumps  *)
(* the cases for the real iterators (the Go mock server implements the same  *)
(* page rule).                                                               *)
EXTENDS Integers, Sequences, TLC, Json

CONSTANTS MaxN

\* kinds: "slice"/"channel" paginate; "full" returns everything after the offset as a complete list;
\* "fullnooffset" ignores the offset (queries without offset fields) and always returns the whole list
MsgKinds == {"slice", "channel", "full", "fullnooffset"}
DlgKinds == {"slice", "full"}

Page(n, pos, limit, kind) ==   \* positions returned
  CASE kind \in {"slice", "channel"} -> [k \in 1..(IF n - pos < limit THEN n - pos ELSE limit) |-> pos + k]
    [] kind = "full" -> [k \in 1..(n - pos) |-> pos + k]
    [] kind = "fullnooffset" -> [k \in 1..n |-> k]

\* messages iterator: last batch when a complete list arrives or the page is shorter than the limit or empty
RECURSIVE MsgIter(_, _, _, _, _, _)
MsgIter(n, pos, limit, kind, acc, fuel) ==
  IF fuel = 0 THEN [yield |-> acc, requests |-> -1]
  ELSE LET p == Page(n, pos, limit, kind)
           last == kind \in {"full", "fullnooffset"} \/ Len(p) < limit \/ Len(p) = 0
           acc2 == acc \o p
       IN IF last THEN [yield |-> acc2, requests |-> 1]
          ELSE LET r == MsgIter(n, p[Len(p)], limit, kind, acc2, fuel - 1)
               IN [yield |-> r.yield, requests |-> IF r.requests < 0 THEN -1 ELSE r.requests + 1]
\* dialogs iterator: last batch when a complete list arrives or the slice is empty
RECURSIVE DlgIter(_, _, _, _, _, _)
DlgIter(n, pos, limit, kind, acc, fuel) ==
  IF fuel = 0 THEN [yield |-> acc, requests |-> -1]
  ELSE LET p == Page(n, pos, limit, kind)
           last == kind = "full" \/ Len(p) = 0
           acc2 == acc \o p
       IN IF last THEN [yield |-> acc2, requests |-> 1]
          ELSE LET r == DlgIter(n, p[Len(p)], limit, kind, acc2, fuel - 1)
               IN [yield |-> r.yield, requests |-> IF r.requests < 0 THEN -1 ELSE r.requests + 1]

All(n) == [k \in 1..n |-> k]
MsgCases == { [cls |-> "messages", in |-> [it |-> "messages", n |-> n, limit |-> l, kind |-> kd],
               expect |-> [yield |-> All(n), terminated |-> TRUE]] : n \in 0..MaxN, l \in 1..(MaxN + 1), kd \in MsgKinds }
DlgCases == { [cls |-> "dialogs", in |-> [it |-> "dialogs", n |-> n, limit |-> l, kind |-> kd],
               expect |-> [yield |-> All(n), terminated |-> TRUE]] : n \in 0..MaxN, l \in 1..(MaxN + 1), kd \in DlgKinds }
\* page sizes and histories beyond the small exhaustive range (servers cap a page at 100 items; callers ask for more)
Large == { <<101, 100>>, <<100, 101>>, <<205, 100>>, <<250, 150>>, <<250, 251>>, <<300, 150>>, <<257, 64>> }
LargeCases == { [cls |-> "messages", in |-> [it |-> "messages", n |-> p[1], limit |-> p[2], kind |-> kd],
                 expect |-> [yield |-> All(p[1]), terminated |-> TRUE]] : p \in Large, kd \in {"slice", "channel", "full"} }
              \cup { [cls |-> "dialogs", in |-> [it |-> "dialogs", n |-> p[1], limit |-> p[2], kind |-> kd],
                       expect |-> [yield |-> All(p[1]), terminated |-> TRUE]] : p \in Large, kd \in DlgKinds }
ASSUME LargeYield == \A c \in LargeCases :
          IF c.in.it = "messages" THEN MsgIter(c.in.n, 0, c.in.limit, c.in.kind, <<>>, 40).yield = All(c.in.n)
          ELSE DlgIter(c.in.n, 0, c.in.limit, c.in.kind, <<>>, 40).yield = All(c.in.n)
ASSUME MsgIterYieldsHistory == \A c \in MsgCases : MsgIter(c.in.n, 0, c.in.limit, c.in.kind, <<>>, 40).yield = All(c.in.n)
ASSUME DlgIterYieldsHistory == \A c \in DlgCases : DlgIter(c.in.n, 0, c.in.limit, c.in.kind, <<>>, 40).yield = All(c.in.n)
ASSUME Dump == \A c \in MsgCases \cup DlgCases \cup LargeCases : PrintT(ToJson(c))
=============================================================================
