CONSTANTS MaxN = 9
