CONSTANTS MaxN = 6
