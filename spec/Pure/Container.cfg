CONSTANT Thorough = FALSE
