------------------------------ MODULE Container ------------------------------
(* C22.  Message containers, rpc_result wrappers, unencrypted messages and    *)
(* gzip-packed objects (proto package): round trip for every well-formed       *)
(* value, error (never a panic) for every malformed count / length / cut, and  *)
(* the 10 MiB bound on decompression.                                          *)
EXTENDS Integers, Sequences, FiniteSets, TLC, Json

CONSTANT Thorough
MiB == 1048576
MaxBody == MiB

BodySizes == {0, 4, 16, 1024, MiB, MiB + 4}
Lists == { <<a>> : a \in BodySizes } \cup { <<a, b>> : a \in BodySizes \ {MiB + 4}, b \in {0, 16, 1024, MiB + 4} }
         \cup { <<16, 16, 16>>, <<1024, 16, 4>>, <<4, 16, 1024>> }
         \cup (IF Thorough THEN { <<a, b, c>> : a \in {0, 16}, b \in {16, MiB}, c \in {0, 16, 1024} } ELSE {})
AllFit(l) == \A j \in 1..Len(l) : l[j] <= MaxBody
ContCases == { [cls |-> "container", in |-> [kind |-> "container", sizes |-> l],
                expect |-> IF AllFit(l) THEN [encode_ok |-> TRUE, decode_ok |-> TRUE, equal |-> TRUE, count |-> Len(l)] ELSE [encode_ok |-> FALSE]] : l \in Lists }
            \cup { [cls |-> "container", in |-> [kind |-> "container", sizes |-> <<>>], expect |-> [encode_ok |-> TRUE, decode_ok |-> TRUE, equal |-> TRUE, count |-> 0]] }

\* malformed containers: the byte stream of a valid two-message container with one field overwritten or cut
Malformed == {"count_plus1", "count_huge", "count_negative", "len_negative", "len_too_big", "len_beyond", "cut_header", "cut_count",
              "cut_msg_header", "cut_body", "wrong_id", "empty"}
BadCases == { [cls |-> "badcontainer", in |-> [kind |-> "badcontainer", how |-> m], expect |-> [decode_ok |-> FALSE, nopanic |-> TRUE]] : m \in Malformed }

ResCases == { [cls |-> "result", in |-> [kind |-> "result", size |-> n], expect |-> [decode_ok |-> TRUE, equal |-> TRUE]] : n \in {0, 4, 1000, 65536} }
            \cup { [cls |-> "result", in |-> [kind |-> "badresult", how |-> h], expect |-> [decode_ok |-> FALSE, nopanic |-> TRUE]] : h \in {"wrong_id", "cut_id", "cut_msgid", "empty"} }

UnencCases == { [cls |-> "unenc", in |-> [kind |-> "unenc", size |-> n], expect |-> [decode_ok |-> TRUE, equal |-> TRUE]] : n \in {0, 4, 20, 1000} }
              \cup { [cls |-> "unenc", in |-> [kind |-> "badunenc", how |-> h], expect |-> [decode_ok |-> FALSE, nopanic |-> TRUE]]
                     : h \in {"authkey_nonzero", "len_negative", "len_beyond", "cut_authkey", "cut_msgid", "cut_len", "empty"} }

Limit == 10 * MiB
GzSizes == {0, 4, 1000, MiB, Limit - 4, Limit, Limit + 4, 64 * MiB}
GzCases == { [cls |-> "gzip", in |-> [kind |-> "gzip", size |-> n],
              expect |-> IF n < Limit THEN [decode_ok |-> TRUE, equal |-> TRUE, within |-> TRUE]
                         ELSE IF n = Limit THEN [within |-> TRUE] ELSE [decode_ok |-> FALSE, within |-> TRUE]] : n \in GzSizes }
           \cup { [cls |-> "gzip", in |-> [kind |-> "badgzip", how |-> h], expect |-> [decode_ok |-> FALSE, nopanic |-> TRUE]]
                  : h \in {"not_gzip", "cut_stream", "bad_crc", "wrong_id", "empty", "cut_bytes_header"} }
\* a gzip stream is a concatenation of members; the bound is on everything that is inflated, whichever member it is in
RECURSIVE SumSeq(_)
SumSeq(q) == IF q = <<>> THEN 0 ELSE Head(q) + SumSeq(Tail(q))
GzMembers == {<<4, 4>>, <<1000, MiB>>, <<0, 20>>, <<Limit - 8, 4>>, <<Limit + MiB, 1>>, <<1, Limit + MiB>>, <<6 * MiB, 6 * MiB>>,
              <<4 * MiB, 4 * MiB, 4 * MiB>>, <<Limit + MiB, 1, 1>>}
GzMultiCases == { [cls |-> "gzip", in |-> [kind |-> "gzipmulti", members |-> q],
                   expect |-> IF SumSeq(q) < Limit THEN [decode_ok |-> TRUE, equal |-> TRUE, within |-> TRUE]
                              ELSE [decode_ok |-> FALSE, within |-> TRUE]] : q \in GzMembers }
ASSUME Dump == \A c \in ContCases \cup BadCases \cup ResCases \cup UnencCases \cup GzCases \cup GzMultiCases : PrintT(ToJson(c))
=============================================================================
