
