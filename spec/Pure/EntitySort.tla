---------------------------- MODULE EntitySort ----------------------------
(* C36: completed entities are ordered by offset, then by descending length. *)
EXTENDS Integers, Sequences, SequencesExt, FiniteSets, TLC, Json

CONSTANTS MaxLen

Ents == [off : 0..2, len : 1..3]
Seqs == UNION { [1..n -> Ents] : n \in 1..MaxLen }

\* TDLib order
Less(a, b) == a.off < b.off \/ (a.off = b.off /\ a.len > b.len)
Sorted(s) == \A i, j \in 1..Len(s) : i < j => ~Less(s[j], s[i])
Count(s, e) == Cardinality({k \in 1..Len(s) : s[k] = e})
Perm(s, t) == Len(s) = Len(t) /\ \A e \in Ents : Count(s, e) = Count(t, e)
Expect(s) == SortSeq(s, Less)

\* The comparator of the code as it is (a named deviation, see KNOWN_FINDINGS): off< \/ len>.
\* sort.Sort uses insertion sort below 12 elements, so the deviating output is predictable.
BadLess(a, b) == a.off < b.off \/ a.len > b.len
Swap(s, j, k) == [s EXCEPT ![j] = s[k], ![k] = s[j]]
RECURSIVE Bubble(_, _)
Bubble(s, j) == IF j > 1 /\ BadLess(s[j], s[j - 1]) THEN Bubble(Swap(s, j, j - 1), j - 1) ELSE s
RECURSIVE Ins(_, _)
Ins(s, k) == IF k > Len(s) THEN s ELSE Ins(Bubble(s, k), k + 1)
AsIs(s) == Ins(s, 2)

ASSUME SpecSortIsSort == \A s \in Seqs : Sorted(Expect(s)) /\ Perm(s, Expect(s))
Cases == { [cls |-> "sort", in |-> [ents |-> s], expect |-> [out |-> Expect(s)],
             known |-> [sig |-> "lengthfirst-comparator", got |-> [out |-> AsIs(s)]]] : s \in Seqs }
ASSUME Dump == \A c \in Cases : PrintT(ToJson(c))
=============================================================================
