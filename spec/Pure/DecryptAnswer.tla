--------------------------- MODULE DecryptAnswer ---------------------------
(* C11: exchange answer decryption reports every hash mismatch as an error. *)
(* Symbolic cipher: Dec(k2, Enc(k1, m)) = m iff k1 = k2 and the ciphertext  *)
(* is untouched; otherwise the plaintext is garbage whose SHA-1 prefix       *)
(* matches no padding length.                                                *)
EXTENDS Integers, Sequences, TLC, Json, FiniteSets

Keys == {"same", "other"}
Tampers == {"none", "hashbyte", "databyte", "lastblock", "firstblock"}
Lens == {0, 1, 11, 12, 15, 16, 17, 100, 255}
Aligned == {TRUE, FALSE}

\* outcome of the specification
Outcome(k, t, al) == IF ~al THEN "error"
                     ELSE IF k = "same" /\ t = "none" THEN "data" ELSE "error"
Cases == { [cls |-> "answer", in |-> [key |-> k, tamper |-> t, len |-> l, aligned |-> al],
            expect |-> [outcome |-> Outcome(k, t, al)]] : k \in Keys, t \in Tampers, l \in Lens, al \in Aligned }
ASSUME NeverSilentSuccess == \A c \in Cases : c.expect.outcome \in {"data", "error"}
ASSUME DataOnlyWhenAuthentic == \A c \in Cases : c.expect.outcome = "data" => (c.in.key = "same" /\ c.in.tamper = "none" /\ c.in.aligned)
ASSUME Dump == \A c \in Cases : PrintT(ToJson(c))
=============================================================================
