------------------------------- MODULE Markup -------------------------------
(* C37.  Telegram HTML and Markdown parsing.  The specification contributes    *)
(* the input enumeration (all token sequences up to a bound over a token       *)
(* grammar of tags, mis-nested closes, attributes, character references,       *)
(* markdown markers, text classes and invalid UTF-8) and the oracle            *)
(* (MarkupProp.tla evaluated by TLC on the recorded results); it is not a      *)
(* model of the parsers.                                                       *)
EXTENDS Integers, Sequences, FiniteSets, TLC, Json

CONSTANT MaxLen

HtmlTokens == {"<b>", "</b>", "<i>", "</i>", "<u>", "<s>", "</s>", "<code>", "</code>", "<pre>", "</pre>", "<a href=\"http://x.y\">", "</a>",
               "<a href=\"tg://user?id=1\">", "<tg-spoiler>", "</tg-spoiler>", "<span class=\"tg-spoiler\">", "</span>", "<blockquote>", "</blockquote>",
               "<pre><code class=\"language-go\">", "<br>", "<unknown>", "</", "<", ">", "<b", "&amp;", "&lt;", "&#x1F600;", "&#128512;", "&#xZZ;", "&", "&#;",
               "a", "U+1F600", " ", "NL", "0xFF", "0xF0 0x9F", "U+00A0"}
MdTokens == {"*", "**", "_", "__", "`", "```", "```go NL", "[", "](http://x.y)", "](tg://user?id=1)", ")", "~~", "||", "\\", ">", "# ", "- ", "1. ",
             "a", "U+1F600", " ", "NL", "0xFF", "0xF0 0x9F", "U+00A0", "&amp;", "<b>", "!["}

\* nesting skeletons (beyond the exhaustive bound): an outer and an inner element, text before / inside / after the
\* inner one, optionally a plain tail; whitespace at the ends is where the builder trims
HOpen == [b |-> "<b>", i |-> "<i>", code |-> "<code>", a |-> "<a href=\"http://x.y\">", pre |-> "<pre>"]
HClose == [b |-> "</b>", i |-> "</i>", code |-> "</code>", a |-> "</a>", pre |-> "</pre>"]
HTags == {"b", "i", "code", "a", "pre"}
NT == { <<>>, <<"a">>, <<" ">>, <<"a", " ">>, <<"U+1F600", "NL">> }
HtmlNest == { <<HOpen[o]>> \o t1 \o <<HOpen[n]>> \o t2 \o <<HClose[n]>> \o t3 \o <<HClose[o]>> \o t4
              : o \in HTags, n \in HTags, t1 \in {<<>>, <<"a", " ">>}, t2 \in NT, t3 \in {<<>>, <<" ">>, <<"a">>}, t4 \in {<<>>, <<"a">>} }
MdMarks == {"**", "__", "`", "~~", "||"}
MdNest == { <<o>> \o t1 \o <<n>> \o t2 \o <<n>> \o t3 \o <<o>> \o t4
            : o \in MdMarks, n \in MdMarks \cup {"_", "*"}, t1 \in {<<>>, <<"a", " ">>}, t2 \in NT, t3 \in {<<>>, <<" ">>, <<"a">>}, t4 \in {<<>>, <<"a">>} }
\* history: a parse must not depend on what was parsed before it in the same process.  First inputs leave something
\* behind if anything can (unclosed elements after some text, broken tags, errors); the second is any short sequence.
A10 == [k \in 1..10 |-> "a"]
HtmlFirst == { A10 \o <<"<b>", "a">>, A10 \o <<"<i>", "<code>", "a">>, <<"<b", "a">>, A10 \o <<"<a href=\"http://x.y\">", "a">>, <<"</b>">> }
MdFirst == { A10 \o <<"**", "a">>, A10 \o <<"`", "a">>, A10 \o <<"[", "a">>, <<"```go NL", "a">> }
Seqs(T, n) == UNION { [1..k -> T] : k \in 0..n }
Cases == { [cls |-> "html", in |-> [kind |-> "html", tokens |-> s]] : s \in Seqs(HtmlTokens, MaxLen) }
         \cup { [cls |-> "md", in |-> [kind |-> "md", tokens |-> s]] : s \in Seqs(MdTokens, MaxLen) }
         \cup { [cls |-> "html", in |-> [kind |-> "html", first |-> f, tokens |-> s]] : f \in HtmlFirst, s \in Seqs(HtmlTokens, 2) }
         \cup { [cls |-> "md", in |-> [kind |-> "md", first |-> f, tokens |-> s]] : f \in MdFirst, s \in Seqs(MdTokens, 2) }
         \cup { [cls |-> "html", in |-> [kind |-> "html", tokens |-> s]] : s \in HtmlNest }
         \cup { [cls |-> "md", in |-> [kind |-> "md", tokens |-> s]] : s \in MdNest }
ASSUME Dump == \A c \in Cases : PrintT(ToJson(c))
=============================================================================
