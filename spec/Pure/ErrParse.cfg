CONSTANTS MaxWords = 2
