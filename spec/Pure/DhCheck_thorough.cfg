CONSTANTS MaxP = 4000 Thorough = TRUE
