CONSTANTS MaxWords = 3
