CONSTANT MaxLen = 3
