CONSTANTS MaxLen = 3
