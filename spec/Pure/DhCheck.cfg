CONSTANTS MaxP = 1500 Thorough = FALSE
