------------------------------- MODULE Rle -------------------------------
(* C38: Bot-API file ids round-trip (fileid/rle.go zero-run encoding).        *)
(* The encoder is transcribed at run level: a maximal run of n zero bytes is   *)
(* emitted as (0, count) pairs by a counter that is one byte wide.             *)
(*   Fixed = FALSE: counter wraps at 256 (code before the repair)              *)
(*   Fixed = TRUE : counter is flushed when it reaches MaxRun                  *)
EXTENDS Integers, Sequences, TLC, Json, FiniteSets

CONSTANTS Fixed, MaxRun, Thorough

Ns == (0..3) \cup (247..260) \cup (497..515) \cup (IF Thorough THEN (745..770) \cup {1020, 1021} ELSE {763, 768})

RECURSIVE Rep(_, _)
Rep(v, k) == IF k = 0 THEN <<>> ELSE <<v>> \o Rep(v, k - 1)
EncZ(n) == IF Fixed THEN Rep(MaxRun, n \div MaxRun) \o (IF n % MaxRun > 0 THEN <<n % MaxRun>> ELSE <<>>)
           ELSE IF n % 256 = 0 THEN <<>> ELSE <<n % 256>>
RECURSIVE Sum(_)
Sum(s) == IF s = <<>> THEN 0 ELSE Head(s) + Sum(Tail(s))
DecZ(cs) == Sum(cs)

ASSUME CountsFitInByte == \A n \in Ns : \A k \in 1..Len(EncZ(n)) : EncZ(n)[k] \in 1..255
ASSUME RoundTrip == \A n \in Ns : DecZ(EncZ(n)) = n

\* file reference = 0^a X 0^b Y with X, Y non-zero; the driver also varies id / access hash
RefCases == { [cls |-> "ref", in |-> [kind |-> "ref", a |-> a, b |-> b], expect |-> [roundtrip |-> TRUE, nopanic |-> TRUE]]
              : a \in Ns, b \in (IF Thorough THEN Ns ELSE {0, 1, 255, 256, 257, 512}) }
Muts == {"none", "trunc1", "trunchalf", "flipfirst", "flipmid", "fliplast", "random", "empty", "badb64", "zeropair"}
MutCases == { [cls |-> "mut", in |-> [kind |-> "mut", mut |-> m, a |-> a], expect |-> [nopanic |-> TRUE]]
              : m \in Muts, a \in {0, 2, 256, 300} }
ASSUME Dump == \A c \in RefCases \cup MutCases : PrintT(ToJson(c))
=============================================================================
