CONSTANT Thorough = TRUE
