CONSTANT MaxLen = 2
