----------------------------- MODULE ErrParse -----------------------------
(* C40: RPC errors are parsed into type and argument consistently.          *)
(* A message is a sequence of tokens joined by "_": upper-case words (some  *)
(* containing digits) and exactly one all-digit token at any position.      *)
EXTENDS Integers, Sequences, TLC, Json, FiniteSets

CONSTANTS MaxWords

Words == {"FLOOD", "WAIT", "PREMIUM", "X2Y", "FILE9", "2FA", "3D"}
Nums == {0, 3, 42, 86400, 2147483647}
WordSeqs == UNION { [1..n -> Words] : n \in 1..MaxWords }

RECURSIVE Join(_)
Join(s) == IF s = <<>> THEN "" ELSE IF Len(s) = 1 THEN s[1] ELSE s[1] \o "_" \o Join(Tail(s))
Insert(s, k, x) == SubSeq(s, 1, k) \o <<x>> \o SubSeq(s, k + 1, Len(s))

\* the specification of the parser: type = message without the numeric token, argument = that number
Msg(ws, k, n) == Join(Insert(ws, k, ToString(n)))
Pos == { <<ws, k>> \in WordSeqs \X (0..MaxWords) : k <= Len(ws) }
ParseCases == { [cls |-> "parse", in |-> [msg |-> Msg(p[1], p[2], n), code |-> 420],
                 expect |-> [type |-> Join(p[1]), arg |-> n]] : p \in Pos, n \in Nums }
ParseCasesOK == { c \in ParseCases : TRUE }
NoArgCases == { [cls |-> "noarg", in |-> [msg |-> Join(ws), code |-> 400], expect |-> [type |-> Join(ws), arg |-> 0]] : ws \in WordSeqs }
\* flood waits of either kind: the client sleeps argument + 1 s, then retries
FloodCases == { [cls |-> "flood", in |-> [msg |-> t \o "_" \o ToString(n), code |-> 420],
                 expect |-> [flood |-> TRUE, wait_s |-> n + 1, retry |-> TRUE]] : t \in {"FLOOD_WAIT", "FLOOD_PREMIUM_WAIT"}, n \in {0, 1, 3, 86400} }
NotFloodCases == { [cls |-> "notflood", in |-> [msg |-> m, code |-> 420], expect |-> [flood |-> FALSE, retry |-> FALSE]]
                   : m \in {"FLOOD_3", "WAIT_FLOOD_3", "SLOWMODE_WAIT_5", "FLOOD_WAITING_4"} }
\* position k beyond the word count is the same as appending: restrict
Valid(c) == TRUE
ASSUME TypeHasNoNumber == \A ws \in WordSeqs : \A k \in 0..Len(ws) : \A n \in Nums : Join(ws) # Msg(ws, k, n)
ASSUME Dump == \A c \in {x \in ParseCases : TRUE} \cup NoArgCases \cup FloodCases \cup NotFloodCases : PrintT(ToJson(c))
=============================================================================
