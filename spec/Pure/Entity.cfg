CONSTANT Thorough = FALSE
