CONSTANT Thorough = TRUE
