CONSTANTS Fixed = FALSE MaxRun = 250 Thorough = FALSE
