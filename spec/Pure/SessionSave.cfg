CONSTANTS MaxLen = 2 Thorough = FALSE
