------------------------------ MODULE DhCheck ------------------------------
(* C13.  (a) the generator / residue table of crypto.CheckGP transcribed and  *)
(* checked by TLC against brute-force quadratic residuosity for every safe     *)
(* prime below a bound (the rule depends on p only through p mod 4g);          *)
(* (b) the g_a / g_b range check of CheckDHParams over symbolic values         *)
(* anchor + delta, anchors ordered 1 < 2^1984 < mid < p - 2^1984 < p - 1 < p   *)
(* < p + 2^1984 < p + mid < 2p < 2^2048 - 1 < 2^2056 (values at or above the    *)
(* modulus are out of range however they reduce mod p);                        *)
(* (c) CheckDH prime classes; (d) factorization of semiprimes from a table.    *)
EXTENDS Integers, FiniteSets, Sequences, TLC, Json

CONSTANTS MaxP, Thorough

IsPrime(n) == n > 1 /\ \A d \in 2..(n - 1) : d * d > n \/ n % d # 0
SafePrimes == {p \in 11..MaxP : IsPrime(p) /\ IsPrime((p - 1) \div 2)}

\* transcription of the table in CheckGP
Rule(g, p) ==
  CASE g = 2 -> p % 8 = 7
    [] g = 3 -> p % 3 = 2
    [] g = 4 -> TRUE
    [] g = 5 -> p % 5 \in {1, 4}
    [] g = 6 -> p % 24 \in {19, 23}
    [] g = 7 -> p % 7 \in {3, 5, 6}
    [] OTHER -> FALSE
IsQR(g, p) == \E x \in 1..(p - 1) : (x * x) % p = g % p
ASSUME TableIsResiduosity == \A p \in SafePrimes : \A g \in 2..7 : Rule(g, p) <=> IsQR(g, p)
ASSUME OnlySmallGenerators == \A p \in SafePrimes : \A g \in {0, 1, 8, 9, 10} : ~Rule(g, p)

GpCases == { [cls |-> "gp", in |-> [kind |-> "gp", g |-> g, p |-> p], expect |-> [accept |-> Rule(g, p)]]
             : g \in 0..9, p \in IF Thorough THEN SafePrimes ELSE {q \in SafePrimes : q < 600} }

\* range check: value = anchor + delta
Anchors == {"one", "lo", "mid", "hi", "pm1", "p", "p_lo", "p_mid", "twop", "max2048", "over2048"}
Deltas == {-2, -1, 0, 1, 2}
InSafe(a, d) == (a = "lo" /\ d > 0) \/ (a = "hi" /\ d < 0) \/ a = "mid"
RangeCases == { [cls |-> "range", in |-> [kind |-> "range", who |-> w, anchor |-> a, delta |-> d],
                 expect |-> [accept |-> InSafe(a, d)]] : w \in {"ga", "gb"}, a \in Anchors, d \in Deltas }
GCases == { [cls |-> "grange", in |-> [kind |-> "grange", anchor |-> a, delta |-> d],
             expect |-> [accept |-> ((a = "one" /\ d > 0) \/ (a = "pm1" /\ d < 0) \/ (a = "p" /\ d < -1) \/ a \in {"lo", "mid", "hi"})]]
            : a \in Anchors, d \in Deltas }

\* CheckDH: 2048-bit safe prime with an admissible generator.  The documented 2048-bit production prime has
\* p mod 8 = 3, p mod 3 = 2, p mod 5 = 3, p mod 24 = 11, p mod 7 = 6 (a fact about that constant)
RuleR(g, r) ==
  CASE g = 2 -> r.m8 = 7 [] g = 3 -> r.m3 = 2 [] g = 4 -> TRUE [] g = 5 -> r.m5 \in {1, 4}
    [] g = 6 -> r.m24 \in {19, 23} [] g = 7 -> r.m7 \in {3, 5, 6} [] OTHER -> FALSE
ProdRes == [m8 |-> 3, m3 |-> 2, m5 |-> 3, m24 |-> 11, m7 |-> 6]
ASSUME SameTable == \A p \in SafePrimes : \A g \in 0..9 : Rule(g, p) = RuleR(g, [m8 |-> p % 8, m3 |-> p % 3, m5 |-> p % 5, m24 |-> p % 24, m7 |-> p % 7])
PrimeClasses == {"prod", "prod_plus2", "prime_not_safe", "safe_1024", "even", "bit2049"}
DhCases == { [cls |-> "dh", in |-> [kind |-> "dh", p |-> c, g |-> g],
              expect |-> [accept |-> (c = "prod" /\ RuleR(g, ProdRes))]] : c \in PrimeClasses, g \in {1, 2, 3, 4, 5, 6, 7, 8} }

\* factorization: both factors from a prime table, product below 2^63
Table == {2, 3, 5, 7, 11, 13, 251, 257, 65521, 65537, 1000003} \cup (IF Thorough THEN {17, 19, 23, 8191, 131071, 524287, 999983} ELSE {})
Big == {2147483629, 2147483647, 1073741827}
PqCases == { [cls |-> "pq", in |-> [kind |-> "pq", a |-> a, b |-> b], expect |-> [p |-> IF a < b THEN a ELSE b, q |-> IF a < b THEN b ELSE a, ok |-> TRUE]]
             : a \in Table \cup Big, b \in Table \cup Big } \ { c \in {[cls |-> "pq", in |-> [kind |-> "pq", a |-> a, b |-> a], expect |-> [p |-> a, q |-> a, ok |-> TRUE]] : a \in Table \cup Big} : TRUE }
ASSUME Dump == \A c \in GpCases \cup RangeCases \cup GCases \cup DhCases \cup PqCases : PrintT(ToJson(c))
=============================================================================
