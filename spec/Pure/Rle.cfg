CONSTANTS Fixed = TRUE MaxRun = 250 Thorough = FALSE
