CONSTANT Thorough = FALSE
