----------------------------- MODULE MarkupProp -----------------------------
(* C37 oracle, evaluated by TLC on the results recorded from the real parsers: *)
(* a parse either failed with an error, or produced text plus entities that    *)
(* all lie within the text (UTF-16 units) with non-negative offset and length; *)
(* it never panicked.                                                          *)
EXTENDS Integers, Sequences, FiniteSets, TLC, Json, IOUtils
Res == ndJsonDeserialize(IOEnv.RESULTS_FILE)
Has(r, f) == f \in DOMAIN r
OK(g) == /\ ~Has(g, "panic")
         /\ \/ g.err
            \/ \A j \in 1..Len(g.entities) : LET e == g.entities[j] IN e.off >= 0 /\ e.len >= 0 /\ e.off + e.len <= g.units
Bad == {k \in 1..Len(Res) : ~OK(Res[k].got)}
ASSUME PrintT(ToJson([bad |-> Bad, n |-> Len(Res)]))
=============================================================================
