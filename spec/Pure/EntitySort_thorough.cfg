CONSTANTS MaxLen = 4
