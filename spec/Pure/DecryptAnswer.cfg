
