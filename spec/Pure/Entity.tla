------------------------------- MODULE Entity -------------------------------
(* C35.  Entity builder (telegram/message/entity, styling): a message is a     *)
(* sequence of pieces, each plain or formatted (one or two formats over the    *)
(* same range); texts are sequences of rune classes with their UTF-16 unit     *)
(* counts.  The spec computes the entities the builder must produce: offset =  *)
(* units before the piece, length = units of the piece; trailing whitespace is *)
(* trimmed only when the last piece of the message is the formatted one.       *)
EXTENDS Integers, Sequences, FiniteSets, TLC, Json

CONSTANT Thorough

\* rune classes: UTF-16 units and whether unicode.IsSpace
Units == [a |-> 1, e1 |-> 1, cjk |-> 1, astral |-> 2, comb |-> 2, sp |-> 1, nbsp |-> 1, nl |-> 1, emsp |-> 1, zwj |-> 5]
Space == {"sp", "nbsp", "nl", "emsp"}
Texts == { <<>>, <<"a">>, <<"astral">>, <<"a", "sp">>, <<"sp">>, <<"astral", "nbsp">>, <<"e1", "nl">>, <<"comb">>, <<"cjk", "astral">>,
           <<"sp", "sp">>, <<"a", "astral">>, <<"nbsp">>, <<"zwj", "emsp">>, <<"sp", "a">> }
Fmts == {"plain", "bold", "italic", "bi"}

RECURSIVE Sum(_)
Sum(t) == IF t = <<>> THEN 0 ELSE Units[Head(t)] + Sum(Tail(t))
RECURSIVE TrailSpace(_)
TrailSpace(t) == IF t = <<>> THEN 0 ELSE IF t[Len(t)] \in Space THEN Units[t[Len(t)]] + TrailSpace(SubSeq(t, 1, Len(t) - 1)) ELSE 0

Types(f) == IF f = "bold" THEN <<"bold">> ELSE IF f = "italic" THEN <<"italic">> ELSE IF f = "bi" THEN <<"bold", "italic">> ELSE <<>>

\* index of the piece whose trailing whitespace the builder trims: the last formatted non-empty piece, provided
\* only empty formatted pieces follow it (Plain, even with an empty string, ends the "last formatted block")
RECURSIVE LastNonEmpty(_, _)
LastNonEmpty(ps, k) == IF k = 0 THEN 0
                       ELSE IF ps[k].fmt = "plain" THEN 0
                       ELSE IF ps[k].text # <<>> THEN k ELSE LastNonEmpty(ps, k - 1)

RECURSIVE Ents(_, _, _, _)
Ents(ps, k, off, last) ==
  IF k > Len(ps) THEN <<>>
  ELSE LET p == ps[k]
           n == Sum(p.text)
           trim == IF k = last /\ p.fmt # "plain" THEN TrailSpace(p.text) ELSE 0
           es == IF p.text = <<>> THEN <<>> ELSE [j \in 1..Len(Types(p.fmt)) |-> [type |-> Types(p.fmt)[j], off |-> off, len |-> n - trim]]
       IN es \o Ents(ps, k + 1, off + n, last)

TotalUnits(ps) == LET RECURSIVE T(_) T(k) == IF k > Len(ps) THEN 0 ELSE Sum(ps[k].text) + T(k + 1) IN T(1)
FinalUnits(ps) == LET l == LastNonEmpty(ps, Len(ps)) IN
                  IF l = 0 THEN TotalUnits(ps) ELSE TotalUnits(ps) - TrailSpace(ps[l].text)

Piece == [fmt : Fmts, text : Texts]
Msgs == { <<p>> : p \in Piece } \cup { <<p, q>> : p \in Piece, q \in Piece }
        \cup { <<p, q, r>> : p \in {x \in Piece : x.fmt \in {"bold", "plain"} /\ x.text \in {<<"a", "sp">>, <<"astral">>}},
                             q \in {x \in Piece : x.text \in {<<>>, <<"sp">>, <<"cjk", "astral">>}},
                             r \in (IF Thorough THEN Piece ELSE {x \in Piece : x.text \in {<<"astral", "nbsp">>, <<"sp", "sp">>, <<"comb">>}}) }

\* sanity of the specification itself: entities lie inside the final text
ASSUME Inside == \A m \in Msgs : \A j \in 1..Len(Ents(m, 1, 0, LastNonEmpty(m, Len(m)))) :
                    LET e == Ents(m, 1, 0, LastNonEmpty(m, Len(m)))[j] IN e.off >= 0 /\ e.len >= 0 /\ e.off + e.len <= FinalUnits(m)

\* the statement permits, but does not demand, the trimming at the end of the message: both readings are accepted
Cases == { [cls |-> "build", in |-> [kind |-> "build", pieces |-> m],
            expect_any |-> << [entities |-> Ents(m, 1, 0, LastNonEmpty(m, Len(m))), units |-> FinalUnits(m)],
                              [entities |-> Ents(m, 1, 0, 0), units |-> TotalUnits(m)] >>] : m \in Msgs }
\* nested formatting (Token / Apply, what the HTML and Markdown parsers use): an outer range over pre \o inner \o post with
\* an inner range over `inner`, optionally followed by a plain tail.  Trailing whitespace is trimmed only when the outer
\* range ends the message; every entity is its piece cut to the final text.
Min(a, b) == IF a < b THEN a ELSE b
NPre == { <<>>, <<"a", "sp">>, <<"astral">> }
NIn == { <<"a">>, <<"a", "sp">>, <<"astral", "nbsp">> }
NPost == { <<>>, <<"sp">>, <<"a">>, <<"sp", "sp">> }
NTail == { <<>>, <<"a">> }
NestEnts(pre, inn, post, F) ==
  << [type |-> "bold", off |-> 0, len |-> Min(Sum(pre) + Sum(inn) + Sum(post), F)],
     [type |-> "italic", off |-> Sum(pre), len |-> Min(Sum(inn), F - Sum(pre))] >>
NestCases == { LET all == pre \o inn \o post
                   U == Sum(all) + Sum(tail)
                   F == IF tail = <<>> THEN U - TrailSpace(all) ELSE U
               IN [cls |-> "nest", in |-> [kind |-> "nest", pre |-> pre, inner |-> inn, post |-> post, tail |-> tail],
                   expect_any |-> << [entities |-> NestEnts(pre, inn, post, F), units |-> F],
                                     [entities |-> NestEnts(pre, inn, post, U), units |-> U] >>]
               : pre \in NPre, inn \in NIn, post \in NPost, tail \in NTail }
\* the inner piece keeps at least one unit in every case above (it starts with a non-space rune)
ASSUME NestInside == \A c \in NestCases : \A k \in 1..2 : \A j \in 1..2 :
          LET e == c.expect_any[k].entities[j] IN e.len >= 1 /\ e.off + e.len <= c.expect_any[k].units
\* one builder used for two messages in a row: the result of the first (text and entities as returned by Complete) is
\* kept by the caller and must not change while the second is built; the second is what a fresh builder would give
RMsgs == { <<[fmt |-> "bold", text |-> <<"a", "astral">>]>>,
           <<[fmt |-> "plain", text |-> <<"cjk", "astral">>], [fmt |-> "italic", text |-> <<"a">>]>>,
           <<[fmt |-> "bi", text |-> <<"astral">>], [fmt |-> "plain", text |-> <<"sp", "a">>], [fmt |-> "bold", text |-> <<"a", "sp">>]>> }
ReuseCases == { [cls |-> "reuse", in |-> [kind |-> "reuse", first |-> m1, pieces |-> m2],
                 expect_any |-> << [first_intact |-> TRUE, entities |-> Ents(m2, 1, 0, LastNonEmpty(m2, Len(m2))), units |-> FinalUnits(m2)],
                                   [first_intact |-> TRUE, entities |-> Ents(m2, 1, 0, 0), units |-> TotalUnits(m2)] >>]
                : m1 \in RMsgs, m2 \in RMsgs }
ASSUME Dump == \A c \in Cases \cup NestCases \cup ReuseCases : PrintT(ToJson(c))
=============================================================================
