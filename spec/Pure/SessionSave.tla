----------------------------- MODULE SessionSave -----------------------------
(* C30.  What telegram.Client persists (telegram/session.go onSession /        *)
(* saveSession / restoreConnection): session notifications arrive in any order *)
(* from the primary connection, from pool connections to the same DC, from     *)
(* connections to other DCs and from CDN connections, with PFS on or off.      *)
(* The saved session must always pair the DC with the key (permanent key under *)
(* PFS) and salt of a notification from that same DC.                          *)
EXTENDS Integers, Sequences, FiniteSets, TLC, Json

CONSTANTS MaxLen, Thorough

Primary == 2
Kinds == {"primary", "pool_same_dc", "other_dc", "cdn", "dc_zero"}
\* a notification: which connection, its key number (keys 1..9 are distinct), salt, PFS permanent key number (0 = no PFS)
DCOf(k) == CASE k = "primary" -> Primary [] k = "pool_same_dc" -> Primary [] k = "other_dc" -> 4 [] k = "cdn" -> 203 [] k = "dc_zero" -> 0
Notes == { [kind |-> k, dc |-> DCOf(k), key |-> n, salt |-> 100 + n, perm |-> p]
           : k \in Kinds, n \in (IF Thorough THEN 1..3 ELSE 1..2), p \in {0, 7} }

\* onSession: a regular connection of another DC never touches the saved session; CDN sessions are kept apart
\* (prim is the DC of the client's current primary session: a saving notification makes its DC the primary one)
Saves(n, prim) == n.kind # "cdn" /\ ~(n.dc # 0 /\ prim # 0 /\ n.dc # prim)
SavedOf(n) == [dc |-> n.dc, key |-> IF n.perm # 0 THEN n.perm ELSE n.key, salt |-> n.salt]

RECURSIVE RunP(_, _, _, _)
\* returns the sequence of saved sessions after each notification ([dc |-> -1] = nothing saved yet)
RunP(ns, k, saved, prim) ==
  IF k > Len(ns) THEN <<>>
  ELSE LET sv == Saves(ns[k], prim)
           s2 == IF sv THEN SavedOf(ns[k]) ELSE saved
       IN <<s2>> \o RunP(ns, k + 1, s2, IF sv THEN ns[k].dc ELSE prim)
Run(ns, k, saved) == RunP(ns, k, saved, Primary)
None == [dc |-> -1, key |-> 0, salt |-> 0]
Seqs == UNION { [1..n -> Notes] : n \in 1..MaxLen }

\* C30 on the specification: whatever is saved came from a notification of that DC (or of the unset DC 0)
ASSUME SavedIsConfirmed == \A ns \in Seqs : \A j \in 1..Len(ns) :
          LET s == Run(ns, 1, None)[j] IN
          s.dc # -1 => \E i \in 1..j : ns[i].kind # "cdn" /\ ns[i].dc = s.dc /\ SavedOf(ns[i]) = s

SaveCases == { [cls |-> "save", in |-> [kind |-> "save", notes |-> ns], expect |-> [saved |-> Run(ns, 1, None)]] : ns \in Seqs }
\* a *_MIGRATE error handled concurrently while the last notification is being saved (inside the storage read of
\* saveSession): what is saved is still what that notification confirmed
RaceCases == { [cls |-> "race", in |-> [kind |-> "save", notes |-> ns, race |-> Len(ns)], expect |-> [saved |-> Run(ns, 1, None)]]
               : ns \in {s \in Seqs : Len(s) <= 2} }
\* stored data on restore: key id must be the id of the key
Corruptions == {"none", "key_byte", "key_id_byte", "key_zero", "id_zero", "key_short", "swap_key_other"}
RestoreCases == { [cls |-> "restore", in |-> [kind |-> "restore", how |-> h], expect |-> [ok |-> (h = "none")]] : h \in Corruptions }
\* The layer below (telegram/internal/manager Conn): a connection learns its DC from the answer to initConnection
\* (help.getConfig); session notifications that arrive earlier are buffered and delivered with that config; an optional
\* setup callback (auth transfer for a re-keyed connection to another DC) runs between the answer and readiness.  In
\* whichever phase the notification arrives, the client sees it with the configuration of the connection it came from:
\* the saved session (a primary session of DC 2 with key 9 exists) changes only for a connection to the primary DC.
ConnKinds == {"primary", "other", "cdn"}
ConnDC(k) == CASE k = "primary" -> Primary [] k = "other" -> 4 [] k = "cdn" -> 203
Before == [dc |-> Primary, key |-> 9, salt |-> 109]
ManagerCases == { [cls |-> "manager", in |-> [kind |-> "manager", conn |-> k, dc |-> ConnDC(k), setup |-> su, phase |-> ph, key |-> n],
                   expect |-> [saved |-> IF Saves([kind |-> IF k = "cdn" THEN "cdn" ELSE "x", dc |-> ConnDC(k)], Primary)
                                         THEN [dc |-> ConnDC(k), key |-> n, salt |-> 100 + n] ELSE Before]]
                  : k \in ConnKinds, su \in BOOLEAN, ph \in {"pre_config", "in_setup", "post_init"}, n \in {1, 2} }
KeepManager(c) == c.in.conn = "cdn" => ~c.in.setup
ASSUME Dump == \A c \in SaveCases \cup RaceCases \cup RestoreCases \cup {x \in ManagerCases : KeepManager(x)} : PrintT(ToJson(c))
=============================================================================
