------------------------------- MODULE TLPrim -------------------------------
(* C20.  TL primitive serialization (bin package): the length rule of string  *)
(* / bytes (short form up to 253, long form from 254), 4-byte alignment of     *)
(* every primitive, consumed length on decode, and the decoder's behaviour on  *)
(* truncated input (a cut at every boundary of the encoding).                  *)
EXTENDS Integers, Sequences, FiniteSets, TLC, Json

CONSTANT Thorough

Pad4(n) == ((n + 3) \div 4) * 4
Hdr(l) == IF l <= 253 THEN 1 ELSE 4
EncLen(l) == Pad4(Hdr(l) + l)
ASSUME Aligned == \A l \in 0..70000 : EncLen(l) % 4 = 0 /\ EncLen(l) >= Hdr(l) + l /\ EncLen(l) - (Hdr(l) + l) <= 3
ASSUME AlignedMax == EncLen(16777215) % 4 = 0

Lens == {0, 1, 2, 3, 4, 5, 6, 7, 251, 252, 253, 254, 255, 256, 257, 258, 1000, 65535, 65536, 65537} \cup (IF Thorough THEN {8, 250, 259, 260, 1048576, 16777215} ELSE {16777215})
StrCases == { [cls |-> "str", in |-> [kind |-> "str", as |-> a, len |-> l],
               expect |-> [enclen |-> EncLen(l), roundtrip |-> TRUE, consumed |-> EncLen(l), aligned |-> TRUE]] : a \in {"string", "bytes"}, l \in Lens }

Fixed == [int |-> 4, long |-> 8, double |-> 8, bool |-> 4, int128 |-> 16, int256 |-> 32, vector |-> 8, id |-> 4, int53 |-> 8, uint64 |-> 8, int32 |-> 4]
FixedCases == { [cls |-> "fixed", in |-> [kind |-> "fixed", t |-> t, v |-> v],
                 expect |-> [enclen |-> Fixed[t], roundtrip |-> TRUE, consumed |-> Fixed[t]]] : t \in DOMAIN Fixed, v \in {"zero", "min", "max", "random"} }

\* truncated / short input: the first avail bytes of a valid encoding of length l
Cuts(l) == {0, 1, Hdr(l) - 1, Hdr(l), Hdr(l) + l - 1, Hdr(l) + l, EncLen(l) - 1, EncLen(l), EncLen(l) + 4} \cap 0..(EncLen(l) + 4)
CutCases == UNION { { [cls |-> "cut", in |-> [kind |-> "cut", as |-> a, len |-> l, avail |-> c],
                        expect |-> [ok |-> c >= EncLen(l), nopanic |-> TRUE]] : a \in {"string", "bytes"}, c \in Cuts(l) }
                    : l \in {0, 1, 2, 3, 5, 253, 254, 255, 256, 257, 1000} }
FixedCut == { [cls |-> "fcut", in |-> [kind |-> "fcut", t |-> t, avail |-> c], expect |-> [ok |-> c >= Fixed[t], nopanic |-> TRUE]]
              : t \in DOMAIN Fixed, c \in {0, 1, 3, 4, 7, 8, 15, 16, 31, 32} }
\* arbitrary first bytes
FirstByte == { [cls |-> "fb", in |-> [kind |-> "fb", as |-> a, fb |-> f, avail |-> n], expect |-> [nopanic |-> TRUE]]
               : a \in {"string", "bytes"}, f \in {0, 1, 3, 252, 253, 254, 255}, n \in {1, 2, 4, 8, 256, 260} }
\* concatenations: consumed lengths add up
Seqs == { <<a, b>> : a \in {0, 3, 253, 254}, b \in {1, 4, 255} }
CatCases == { [cls |-> "cat", in |-> [kind |-> "cat", lens |-> s], expect |-> [total |-> EncLen(s[1]) + 4 + EncLen(s[2]) + 8, roundtrip |-> TRUE]] : s \in Seqs }
ASSUME Dump == \A c \in StrCases \cup FixedCases \cup CutCases \cup FixedCut \cup FirstByte \cup CatCases : PrintT(ToJson(c))
=============================================================================
