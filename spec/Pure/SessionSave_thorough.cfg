CONSTANTS MaxLen = 3 Thorough = FALSE
