CONSTANT Thorough = TRUE
