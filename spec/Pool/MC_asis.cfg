CONSTANTS Callers = {1,2,3} Max = 1 MaxConn = 2 MaxInv = 1 Fix1 = FALSE Fix2 = FALSE Fix3 = FALSE Fix4 = FALSE Fix5 = FALSE
INIT Init
NEXT Next
VIEW View
INVARIANTS Limit Exclusive Conservation NoStrandedWaiter
PROPERTIES NoDeadHandOut
CHECK_DEADLOCK FALSE
