------------------------------ MODULE Pool ------------------------------
(* Implementation-shaped model of pool/pool.go + pool/req_map.go.           *)
(* One action per critical section between two verifhook gates.              *)
(* Caller c (one dc.Invoke):                                                  *)
(*   Start -> [PoolAcqEnter] A0 -> [Popped] A1 | [Created] A3* | [Waiting]    *)
(*   A4pre, A4recv/A4stuck/A4ctx -> [GiveUp] DelKey -> [GaveUp] A6/A8 ->      *)
(*   hold (conn.Invoke) -> InvokeOk/InvokeDeadErr -> [PoolRelease] R0 ->      *)
(*   [PoolTransferSend] T1 -> done                                            *)
(* Fix switches (FALSE = code before the repair, see DESIGN.md section 8):    *)
(*   Fix1 cancel during creation hands the connection to a background         *)
(*        releaser instead of leaking it                                      *)
(*   Fix2 reqMap.transfer sends while holding r.mux                           *)
(*   Fix3 the waiter captures the stuck channel before unlocking c.mu         *)
(*   Fix4 a waiter re-checks Dead on a connection received from its request   *)
(*        channel (as the free-list path does) before using it                *)
(*   Fix5 the creation path re-checks Dead after Ready                        *)
EXTENDS Integers, Sequences, FiniteSets, TLC, Json

CONSTANTS Callers, Max, MaxConn, MaxInv, Fix1, Fix2, Fix3, Fix4, Fix5

None == 0
Conns == 1..MaxConn

VARIABLES
  pc, cconn, ckey, cgen, cancelled, inv,
  total, free, nextConn, reqs, chan, nextKey,
  ready, killed, deleted, deadSig, runDone, stuckGen, muHolder, bg,
  w, hist

vars == <<pc, cconn, ckey, cgen, cancelled, inv, total, free, nextConn, reqs, chan, nextKey,
          ready, killed, deleted, deadSig, runDone, stuckGen, muHolder, bg, w, hist>>
View == <<pc, cconn, ckey, cgen, cancelled, inv, total, free, nextConn, reqs, chan, nextKey,
          ready, killed, deleted, deadSig, runDone, stuckGen, muHolder, bg>>

Init ==
  /\ pc = [c \in Callers |-> "idle"] /\ cconn = [c \in Callers |-> None]
  /\ ckey = [c \in Callers |-> None] /\ cgen = [c \in Callers |-> 0]
  /\ cancelled = [c \in Callers |-> FALSE] /\ inv = [c \in Callers |-> 0]
  /\ total = 0 /\ free = <<>> /\ nextConn = 0 /\ reqs = {} /\ chan = <<>> /\ nextKey = 0
  /\ ready = {} /\ killed = {} /\ deleted = {} /\ deadSig = {} /\ runDone = {} /\ stuckGen = 0
  /\ muHolder = None /\ bg = {}
  /\ w = [deadHandOut |-> FALSE] /\ hist = <<>>

Lab(a) == hist' = Append(hist, a)
MuFree == muHolder = None

\* c.dead(r) (needs c.mu)
DeadEffect(r) ==
  IF r \in deleted THEN UNCHANGED <<total, free, deleted, deadSig, stuckGen>>
  ELSE /\ deleted' = deleted \cup {r} /\ total' = total - 1
       /\ free' = SelectSeq(free, LAMBDA x : x # r)
       /\ deadSig' = deadSig \cup {r} /\ stuckGen' = stuckGen + 1

Hold(c, r) == w' = [w EXCEPT !.deadHandOut = @ \/ r \in deadSig]

Start(c) ==
  /\ pc[c] = "idle" /\ inv[c] < MaxInv /\ ~cancelled[c]
  /\ inv' = [inv EXCEPT ![c] = @ + 1] /\ pc' = [pc EXCEPT ![c] = "A0"]
  /\ Lab([a |-> "Start", c |-> c])
  /\ UNCHANGED <<cconn, ckey, cgen, cancelled, total, free, nextConn, reqs, chan, nextKey, ready, killed, deleted, deadSig, runDone, stuckGen, muHolder, bg, w>>

A0(c) ==
  /\ pc[c] = "A0" /\ MuFree
  /\ IF free # <<>>
     THEN /\ cconn' = [cconn EXCEPT ![c] = free[Len(free)]]
          /\ free' = SubSeq(free, 1, Len(free) - 1)
          /\ pc' = [pc EXCEPT ![c] = "A1"]
          /\ UNCHANGED <<total, nextConn, reqs, chan, nextKey, ckey, cgen>>
     ELSE IF total < Max /\ nextConn < MaxConn
     THEN /\ total' = total + 1 /\ nextConn' = nextConn + 1
          /\ cconn' = [cconn EXCEPT ![c] = nextConn + 1]
          /\ pc' = [pc EXCEPT ![c] = "A2"]
          /\ UNCHANGED <<free, reqs, chan, nextKey, ckey, cgen>>
     ELSE IF total < Max THEN FALSE  \* model bound on connections reached
     ELSE /\ nextKey' = nextKey + 1
          /\ ckey' = [ckey EXCEPT ![c] = nextKey + 1]
          /\ reqs' = reqs \cup {nextKey + 1}
          /\ chan' = Append(chan, None)
          /\ pc' = [pc EXCEPT ![c] = "A4pre"]
          /\ cgen' = IF Fix3 THEN [cgen EXCEPT ![c] = stuckGen] ELSE cgen
          /\ UNCHANGED <<total, free, nextConn, cconn>>
  /\ Lab([a |-> "A0", c |-> c])
  /\ UNCHANGED <<cancelled, inv, ready, killed, deleted, deadSig, runDone, stuckGen, muHolder, bg, w>>

\* case 2: c.mu released, the slot is reserved in total; createConnection runs the user's
\* connection constructor and starts the supervising goroutine (the constructor is a scheduling point)
A2(c) ==
  /\ pc[c] = "A2"
  /\ pc' = [pc EXCEPT ![c] = "A3"]
  /\ Lab([a |-> "A2", c |-> c])
  /\ UNCHANGED <<cconn, ckey, cgen, cancelled, inv, total, free, nextConn, reqs, chan, nextKey, ready, killed, deleted, deadSig, runDone, stuckGen, muHolder, bg, w>>
InCtor(r) == \E c \in Callers : pc[c] = "A2" /\ cconn[c] = r

\* case 1: dead check after unlock (c.dead needs the mutex)
A1(c) ==
  /\ pc[c] = "A1"
  /\ IF cconn[c] \in deadSig
     THEN /\ pc' = [pc EXCEPT ![c] = "A0"] /\ cconn' = [cconn EXCEPT ![c] = None] /\ UNCHANGED w
     ELSE /\ pc' = [pc EXCEPT ![c] = "hold"] /\ UNCHANGED cconn /\ Hold(c, cconn[c])
  /\ Lab([a |-> "A1", c |-> c])
  /\ UNCHANGED <<ckey, cgen, cancelled, inv, total, free, nextConn, reqs, chan, nextKey, ready, killed, deleted, deadSig, runDone, stuckGen, muHolder, bg>>

\* case 2 select
A3ctx(c) ==
  /\ pc[c] = "A3" /\ cancelled[c]
  /\ pc' = [pc EXCEPT ![c] = "fail"] /\ cconn' = [cconn EXCEPT ![c] = None]
  /\ bg' = IF Fix1 THEN bg \cup {cconn[c]} ELSE bg
  /\ Lab([a |-> "A3", c |-> c, br |-> "ctx"])
  /\ UNCHANGED <<ckey, cgen, cancelled, inv, total, free, nextConn, reqs, chan, nextKey, ready, killed, deleted, deadSig, runDone, stuckGen, muHolder, w>>
A3ready(c) ==
  /\ pc[c] = "A3" /\ cconn[c] \in ready
  /\ IF Fix5 /\ cconn[c] \in deadSig
     THEN /\ pc' = [pc EXCEPT ![c] = "A0"] /\ cconn' = [cconn EXCEPT ![c] = None] /\ UNCHANGED w
     ELSE /\ pc' = [pc EXCEPT ![c] = "hold"] /\ Hold(c, cconn[c]) /\ UNCHANGED cconn
  /\ Lab([a |-> "A3", c |-> c, br |-> "ready"])
  /\ UNCHANGED <<ckey, cgen, cancelled, inv, total, free, nextConn, reqs, chan, nextKey, ready, killed, deleted, deadSig, runDone, stuckGen, muHolder, bg>>
A3dead(c) ==
  /\ pc[c] = "A3" /\ cconn[c] \in deadSig
  /\ pc' = [pc EXCEPT ![c] = "A0"] /\ cconn' = [cconn EXCEPT ![c] = None]
  /\ Lab([a |-> "A3", c |-> c, br |-> "dead"])
  /\ UNCHANGED <<ckey, cgen, cancelled, inv, total, free, nextConn, reqs, chan, nextKey, ready, killed, deleted, deadSig, runDone, stuckGen, muHolder, bg, w>>

\* case 3: the select statement evaluates its operands (captures the current stuck channel)
A4pre(c) ==
  /\ pc[c] = "A4pre"
  /\ cgen' = IF Fix3 THEN cgen ELSE [cgen EXCEPT ![c] = stuckGen]
  /\ pc' = [pc EXCEPT ![c] = "A4"]
  /\ Lab([a |-> "A4pre", c |-> c])
  /\ UNCHANGED <<cconn, ckey, cancelled, inv, total, free, nextConn, reqs, chan, nextKey, ready, killed, deleted, deadSig, runDone, stuckGen, muHolder, bg, w>>
A4recv(c) ==
  /\ pc[c] = "A4" /\ chan[ckey[c]] # None
  /\ chan' = [chan EXCEPT ![ckey[c]] = None]
  /\ IF Fix4 /\ chan[ckey[c]] \in deadSig
     THEN /\ pc' = [pc EXCEPT ![c] = "A0"] /\ UNCHANGED <<cconn, w>>
     ELSE /\ cconn' = [cconn EXCEPT ![c] = chan[ckey[c]]]
          /\ pc' = [pc EXCEPT ![c] = "hold"] /\ Hold(c, chan[ckey[c]])
  /\ Lab([a |-> "A4", c |-> c, br |-> "recv"])
  /\ UNCHANGED <<ckey, cgen, cancelled, inv, total, free, nextConn, reqs, nextKey, ready, killed, deleted, deadSig, runDone, stuckGen, muHolder, bg>>
A4stuck(c) ==
  /\ pc[c] = "A4" /\ stuckGen > cgen[c]
  /\ pc' = [pc EXCEPT ![c] = "A5"]
  /\ Lab([a |-> "A4", c |-> c, br |-> "stuck"])
  /\ UNCHANGED <<cconn, ckey, cgen, cancelled, inv, total, free, nextConn, reqs, chan, nextKey, ready, killed, deleted, deadSig, runDone, stuckGen, muHolder, bg, w>>
A4ctx(c) ==
  /\ pc[c] = "A4" /\ cancelled[c]
  /\ pc' = [pc EXCEPT ![c] = "A7"]
  /\ Lab([a |-> "A4", c |-> c, br |-> "ctx"])
  /\ UNCHANGED <<cconn, ckey, cgen, cancelled, inv, total, free, nextConn, reqs, chan, nextKey, ready, killed, deleted, deadSig, runDone, stuckGen, muHolder, bg, w>>
\* freeReq.delete(key) (needs only r.mux)
DelKey(c, from, to) ==
  /\ pc[c] = from
  /\ reqs' = reqs \ {ckey[c]} /\ pc' = [pc EXCEPT ![c] = to]
  /\ Lab([a |-> "DelKey", c |-> c])
  /\ UNCHANGED <<cconn, ckey, cgen, cancelled, inv, total, free, nextConn, chan, nextKey, ready, killed, deleted, deadSig, runDone, stuckGen, muHolder, bg, w>>
A6(c) ==  \* non-blocking receive after stuck
  /\ pc[c] = "A6"
  /\ IF chan[ckey[c]] # None
     THEN /\ chan' = [chan EXCEPT ![ckey[c]] = None]
          /\ IF Fix4 /\ chan[ckey[c]] \in deadSig
             THEN pc' = [pc EXCEPT ![c] = "A0"] /\ UNCHANGED <<cconn, w>>
             ELSE /\ cconn' = [cconn EXCEPT ![c] = chan[ckey[c]]]
                  /\ pc' = [pc EXCEPT ![c] = "hold"] /\ Hold(c, chan[ckey[c]])
     ELSE /\ pc' = [pc EXCEPT ![c] = "A0"] /\ UNCHANGED <<cconn, chan, w>>
  /\ Lab([a |-> "Recv", c |-> c])
  /\ UNCHANGED <<ckey, cgen, cancelled, inv, total, free, nextConn, reqs, nextKey, ready, killed, deleted, deadSig, runDone, stuckGen, muHolder, bg>>
A8(c) ==  \* non-blocking receive after ctx done; release if got one
  /\ pc[c] = "A8"
  /\ IF chan[ckey[c]] # None
     THEN /\ cconn' = [cconn EXCEPT ![c] = chan[ckey[c]]] /\ chan' = [chan EXCEPT ![ckey[c]] = None]
          /\ pc' = [pc EXCEPT ![c] = "R0fail"]
     ELSE /\ pc' = [pc EXCEPT ![c] = "fail"] /\ UNCHANGED <<cconn, chan>>
  /\ Lab([a |-> "Recv", c |-> c])
  /\ UNCHANGED <<ckey, cgen, cancelled, inv, total, free, nextConn, reqs, nextKey, ready, killed, deleted, deadSig, runDone, stuckGen, muHolder, bg, w>>

\* conn.Invoke result decided by the environment
InvokeOk(c) ==
  /\ pc[c] = "hold" /\ cconn[c] \notin killed
  /\ pc' = [pc EXCEPT ![c] = "R0ok"]
  /\ Lab([a |-> "Invoke", c |-> c, res |-> "ok"])
  /\ UNCHANGED <<cconn, ckey, cgen, cancelled, inv, total, free, nextConn, reqs, chan, nextKey, ready, killed, deleted, deadSig, runDone, stuckGen, muHolder, bg, w>>
InvokeDeadErr(c) ==   \* retryable error from a killed connection; c.dead needs the mutex
  /\ pc[c] = "hold" /\ cconn[c] \in killed
  /\ IF cancelled[c]
     THEN /\ pc' = [pc EXCEPT ![c] = "R0fail"]
          /\ UNCHANGED <<cconn, total, free, deleted, deadSig, stuckGen>>
     ELSE /\ MuFree /\ DeadEffect(cconn[c])
          /\ pc' = [pc EXCEPT ![c] = "A0"] /\ cconn' = [cconn EXCEPT ![c] = None]
  /\ Lab([a |-> "Invoke", c |-> c, res |-> "dead"])
  /\ UNCHANGED <<ckey, cgen, cancelled, inv, nextConn, reqs, chan, nextKey, ready, killed, runDone, muHolder, bg, w>>

Done(c, p) == IF p \in {"R0ok", "T1ok"} THEN "idle" ELSE "fail"
\* release
R0(c) ==
  /\ pc[c] \in {"R0ok", "R0fail"} /\ MuFree
  /\ IF reqs = {}
     THEN \* nobody waits: the connection goes to the free list, still under c.mu (the "Connection released" log record
          \* written in between is a scheduling point of the driver)
          /\ muHolder' = c
          /\ pc' = [pc EXCEPT ![c] = IF pc[c] = "R0ok" THEN "R1ok" ELSE "R1fail"]
          /\ UNCHANGED <<reqs, ckey, chan, free, cconn>>
     ELSE \E k \in reqs :
          /\ reqs' = reqs \ {k}
          /\ ckey' = [ckey EXCEPT ![c] = k] /\ muHolder' = c
          /\ pc' = [pc EXCEPT ![c] = IF pc[c] = "R0ok" THEN "T1ok" ELSE "T1fail"]
          /\ chan' = IF Fix2 THEN [chan EXCEPT ![k] = cconn[c]] ELSE chan
          /\ UNCHANGED <<cconn, free>>
  /\ Lab([a |-> "R0", c |-> c])
  /\ UNCHANGED <<cgen, cancelled, inv, total, nextConn, nextKey, ready, killed, deleted, deadSig, runDone, stuckGen, bg, w>>
R1(c) ==
  /\ pc[c] \in {"R1ok", "R1fail"}
  /\ free' = Append(free, cconn[c]) /\ cconn' = [cconn EXCEPT ![c] = None] /\ muHolder' = None
  /\ pc' = [pc EXCEPT ![c] = Done(c, IF pc[c] = "R1ok" THEN "R0ok" ELSE "R0fail")]
  /\ Lab([a |-> "R1", c |-> c])
  /\ UNCHANGED <<ckey, cgen, cancelled, inv, total, nextConn, reqs, chan, nextKey, ready, killed, deleted, deadSig, runDone, stuckGen, bg, w>>
\* the environment may try to let a caller enter acquire while somebody holds c.mu: the caller blocks on the mutex and
\* goes on by itself later; in the model this attempt changes nothing (scripts are attempted schedules)
A0try(c) ==
  /\ pc[c] = "A0" /\ ~MuFree
  /\ (hist = <<>> \/ hist[Len(hist)] # [a |-> "A0", c |-> c])    \* not twice in a row (hist is outside the VIEW)
  /\ Lab([a |-> "A0", c |-> c])
  /\ UNCHANGED <<pc, cconn, ckey, cgen, cancelled, inv, total, free, nextConn, reqs, chan, nextKey, ready, killed, deleted, deadSig, runDone, stuckGen, muHolder, bg, w>>
T1(c) ==   \* after r.mux.Unlock (gate PoolTransferSend); c.mu still held by release
  /\ pc[c] \in {"T1ok", "T1fail"}
  /\ chan' = IF Fix2 THEN chan ELSE [chan EXCEPT ![ckey[c]] = cconn[c]]
  /\ cconn' = [cconn EXCEPT ![c] = None] /\ muHolder' = None
  /\ pc' = [pc EXCEPT ![c] = Done(c, pc[c])]
  /\ Lab([a |-> "T1", c |-> c])
  /\ UNCHANGED <<ckey, cgen, cancelled, inv, total, free, nextConn, reqs, nextKey, ready, killed, deleted, deadSig, runDone, stuckGen, bg, w>>

Cancel(c) ==
  /\ ~cancelled[c] /\ pc[c] \notin {"idle", "fail"}
  /\ cancelled' = [cancelled EXCEPT ![c] = TRUE]
  /\ Lab([a |-> "Cancel", c |-> c])
  /\ UNCHANGED <<pc, cconn, ckey, cgen, inv, total, free, nextConn, reqs, chan, nextKey, ready, killed, deleted, deadSig, runDone, stuckGen, muHolder, bg, w>>

BecomeReady(r) ==
  /\ r \in 1..nextConn /\ r \notin ready /\ r \notin killed /\ ~InCtor(r)
  /\ ready' = ready \cup {r}
  /\ Lab([a |-> "Ready", r |-> r])
  /\ UNCHANGED <<pc, cconn, ckey, cgen, cancelled, inv, total, free, nextConn, reqs, chan, nextKey, killed, deleted, deadSig, runDone, stuckGen, muHolder, bg, w>>
Kill(r) ==        \* the connection breaks: Invoke on it fails from now on
  /\ r \in 1..nextConn /\ r \notin killed /\ ~InCtor(r)
  /\ killed' = killed \cup {r}
  /\ Lab([a |-> "Kill", r |-> r])
  /\ UNCHANGED <<pc, cconn, ckey, cgen, cancelled, inv, total, free, nextConn, reqs, chan, nextKey, ready, deleted, deadSig, runDone, stuckGen, muHolder, bg, w>>
RunReturn(r) ==   \* conn.Run returns; the deferred c.dead(conn) follows as soon as it gets c.mu
  /\ r \in killed /\ r \notin runDone
  /\ runDone' = runDone \cup {r}
  /\ Lab([a |-> "RunReturn", r |-> r])
  /\ UNCHANGED <<pc, cconn, ckey, cgen, cancelled, inv, total, free, nextConn, reqs, chan, nextKey, ready, killed, deleted, deadSig, stuckGen, muHolder, bg, w>>
RunDead(r) ==
  /\ r \in runDone /\ r \notin deleted /\ MuFree
  /\ DeadEffect(r)
  /\ Lab([a |-> "RunDead", r |-> r])
  /\ UNCHANGED <<pc, cconn, ckey, cgen, cancelled, inv, nextConn, reqs, chan, nextKey, ready, killed, runDone, muHolder, bg, w>>

\* background releaser of Fix1
BgRelease(r) ==
  /\ r \in bg /\ r \in ready /\ r \notin deadSig /\ MuFree
  /\ bg' = bg \ {r}
  /\ IF reqs = {} THEN free' = Append(free, r) /\ UNCHANGED <<reqs, chan>>
     ELSE \E k \in reqs : reqs' = reqs \ {k} /\ chan' = [chan EXCEPT ![k] = r] /\ UNCHANGED free
  /\ Lab([a |-> "BgRelease", r |-> r])
  /\ UNCHANGED <<pc, cconn, ckey, cgen, cancelled, inv, total, nextConn, nextKey, ready, killed, deleted, deadSig, runDone, stuckGen, muHolder, w>>
BgDrop(r) ==
  /\ r \in bg /\ r \in deadSig /\ bg' = bg \ {r}
  /\ Lab([a |-> "BgDrop", r |-> r])
  /\ UNCHANGED <<pc, cconn, ckey, cgen, cancelled, inv, total, free, nextConn, reqs, chan, nextKey, ready, killed, deleted, deadSig, runDone, stuckGen, muHolder, w>>

Next ==
  \/ \E c \in Callers : Start(c) \/ A0(c) \/ A1(c) \/ A2(c) \/ A3ctx(c) \/ A3ready(c) \/ A3dead(c)
        \/ A4pre(c) \/ A4recv(c) \/ A4stuck(c) \/ A4ctx(c)
        \/ DelKey(c, "A5", "A6") \/ DelKey(c, "A7", "A8") \/ A6(c) \/ A8(c)
        \/ InvokeOk(c) \/ InvokeDeadErr(c) \/ R0(c) \/ R1(c) \/ T1(c) \/ Cancel(c) \/ A0try(c)
  \/ \E r \in Conns : BecomeReady(r) \/ Kill(r) \/ RunReturn(r) \/ RunDead(r) \/ BgRelease(r) \/ BgDrop(r)

Spec == Init /\ [][Next]_vars

\* ---------------- properties ----------------
\* C27
Limit == total <= Max
LiveLimit == Cardinality({r \in 1..nextConn : r \notin deleted}) <= Max
Exclusive == \A a, b \in Callers : a # b /\ pc[a] = "hold" /\ pc[b] = "hold" => cconn[a] # cconn[b]
NoDeadHandOut == [][~w'.deadHandOut]_vars

\* C28
InFree(r) == \E i \in 1..Len(free) : free[i] = r
Receivable(k) == \E c \in Callers : ckey[c] = k /\ pc[c] \in {"A4pre", "A4", "A5", "A6", "A7", "A8"}
InChan(r) == \E k \in 1..Len(chan) : chan[k] = r /\ Receivable(k)
HeldBy(r) == \E c \in Callers : cconn[c] = r /\ pc[c] \in {"A1", "A2", "A3", "hold", "R0ok", "R0fail", "R1ok", "R1fail", "T1ok", "T1fail"}
Accounted(r) == InFree(r) \/ InChan(r) \/ HeldBy(r) \/ r \in bg
Conservation == \A r \in 1..nextConn : r \notin deleted /\ r \notin runDone => Accounted(r)

Waiting(c) == pc[c] = "A4" /\ ~cancelled[c] /\ chan[ckey[c]] = None /\ stuckGen = cgen[c]
Busy == \/ \E c \in Callers : pc[c] \in {"A0","A1","A2","A3","A4pre","A5","A6","A7","A8","hold","R0ok","R0fail","R1ok","R1fail","T1ok","T1fail"}
        \/ bg # {}
NoStrandedWaiter == \A c \in Callers : Waiting(c) /\ ~Busy => ~(free # <<>> \/ total < Max)

Dump == PrintT(ToJson([hist |-> hist]))
\* directed behaviours: with one repair switched off (MC_off<k>.cfg), every state in which a property fails prints the
\* schedule that led there (breadth first: shortest schedules come first); the runner keeps the first few per property
Violated == (IF ~Limit THEN {"Limit"} ELSE {}) \cup (IF ~Exclusive THEN {"Exclusive"} ELSE {})
            \cup (IF ~Conservation THEN {"Conservation"} ELSE {}) \cup (IF ~NoStrandedWaiter THEN {"NoStrandedWaiter"} ELSE {})
            \cup (IF w.deadHandOut THEN {"NoDeadHandOut"} ELSE {})
\* directed attempts: a caller is let into acquire exactly while another one is between the two halves of release
DumpTry == IF Len(hist) <= 11 /\ \E c \in Callers : pc[c] \in {"R1ok", "R1fail"} /\ \E x \in Callers : pc[x] = "A0"
           THEN PrintT(ToJson([hist |-> hist \o <<[a |-> "A0", c |-> CHOOSE x \in Callers : pc[x] = "A0"]>>,
                               violates |-> {"attempt"}, max |-> Max]))
           ELSE TRUE
DumpBad == IF Violated # {} THEN PrintT(ToJson([hist |-> hist, violates |-> Violated, max |-> Max])) /\ FALSE ELSE TRUE
=============================================================================
