CONSTANTS Props = {"C28"}
SPECIFICATION Spec
CONSTRAINT Mark
POSTCONDITION Accepted
CHECK_DEADLOCK FALSE
