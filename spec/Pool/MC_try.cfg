CONSTANTS Callers = {1,2,3} Max = 1 MaxConn = 2 MaxInv = 1 Fix1 = TRUE Fix2 = TRUE Fix3 = TRUE Fix4 = TRUE Fix5 = TRUE
INIT Init
NEXT Next
VIEW View
CONSTRAINT DumpTry
CHECK_DEADLOCK FALSE
