CONSTANTS Callers = {1,2,3} Max = 2 MaxConn = 4 MaxInv = 2 Fix1 = TRUE Fix2 = TRUE Fix3 = TRUE Fix4 = TRUE Fix5 = TRUE
INIT Init
NEXT Next
CONSTRAINT Dump
CHECK_DEADLOCK FALSE
