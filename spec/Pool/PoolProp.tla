------------------------------ MODULE PoolProp ------------------------------
(* Property-level trace judge for C27 and C28 over the observable events of  *)
(* pool.DC: connections created / ready / killed / Run returned, the pool's   *)
(* own death declaration (gate under the DC mutex), Invoke start/end on a     *)
(* connection per caller, caller start/end, and the driver's end-of-trace     *)
(* liveness probes (Stranded, ProbeStarved).                                  *)
EXTENDS Integers, Sequences, FiniteSets, TLC, Json, IOUtils

CONSTANTS Props

Trace == ndJsonDeserialize(IOEnv.TRACE_FILE)

VARIABLES i, tr, live, inuse, dead, gl
vars == <<i, tr, live, inuse, dead, gl>>

Ev == Trace[i]
Init == i = 1 /\ tr = -1 /\ live = {} /\ inuse = {} /\ dead = {} /\ gl = [max |-> 1, sched |-> TRUE]
On(p, cond) == (p \in Props) => cond

Reset == /\ Ev.ev = "reset" /\ tr' = Ev.trace /\ live' = {} /\ inuse' = {} /\ dead' = {}
         /\ gl' = [max |-> Ev.max, sched |-> Ev.sched]

\* a connection is live from creation until its Run returned or an Invoke on it reported it dead
ConnCreated == /\ Ev.ev = "ConnCreated"
               /\ On("C27", Cardinality(live \cup {Ev.r}) <= gl.max)
               /\ live' = live \cup {Ev.r} /\ UNCHANGED <<tr, inuse, dead, gl>>
RunReturned == /\ Ev.ev = "RunReturned" /\ live' = live \ {Ev.r} /\ UNCHANGED <<tr, inuse, dead, gl>>
PoolDead == /\ Ev.ev = "PoolDead" /\ dead' = dead \cup {Ev.r} /\ UNCHANGED <<tr, live, inuse, gl>>

InvokeStart == /\ Ev.ev = "InvokeStart"
               /\ On("C27", /\ Ev.r \notin inuse                        \* never shared
                            /\ gl.sched => Ev.r \notin dead)            \* never a connection the pool declared dead
               /\ inuse' = inuse \cup {Ev.r} /\ UNCHANGED <<tr, live, dead, gl>>
InvokeEnd == /\ Ev.ev = "InvokeEnd" /\ inuse' = inuse \ {Ev.r}
             /\ live' = IF Ev.res = "dead" THEN live \ {Ev.r} ELSE live
             /\ UNCHANGED <<tr, dead, gl>>

Other == /\ Ev.ev \in {"Ready", "Kill", "Cancel", "CallerStart", "CallerEnd", "End"}
         /\ UNCHANGED <<tr, live, inuse, dead, gl>>
\* liveness probes of the driver: after everything has drained, a caller is still waiting (Stranded)
\* or a fresh caller cannot be served (ProbeStarved): capacity was lost
Stranded == /\ Ev.ev \in {"Stranded", "ProbeStarved"} /\ ~("C28" \in Props)
            /\ UNCHANGED <<tr, live, inuse, dead, gl>>

Next == /\ i <= Len(Trace) /\ i' = i + 1
        /\ (Reset \/ ConnCreated \/ RunReturned \/ PoolDead \/ InvokeStart \/ InvokeEnd \/ Other \/ Stranded)
Spec == Init /\ [][Next]_vars

Mark == TLCSet(1, i) /\ TLCSet(2, tr)
Accepted == IF TLCGet(1) = Len(Trace) + 1 THEN TRUE
            ELSE PrintT(<<"REJECTED at line", TLCGet(1), "trace", TLCGet(2)>>) /\ FALSE
=============================================================================
