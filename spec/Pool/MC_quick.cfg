CONSTANTS Callers = {1,2} Max = 1 MaxConn = 2 MaxInv = 2 Fix1 = TRUE Fix2 = TRUE Fix3 = TRUE Fix4 = TRUE Fix5 = TRUE
INIT Init
NEXT Next
VIEW View
INVARIANTS Limit Exclusive Conservation NoStrandedWaiter
PROPERTIES NoDeadHandOut
CHECK_DEADLOCK FALSE
