CONSTANTS Full = 3 Tail = 1 Workers = {1, 2, 3} MaxFaults = 2 RetryAfterStop = FALSE
INIT Init
NEXT Next
INVARIANTS Complete BoundedOvershoot
CHECK_DEADLOCK FALSE
