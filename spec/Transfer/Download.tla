------------------------------ MODULE Download ------------------------------
(* C33 / C34 (binding half): download cases for the real downloader.           *)
(*  - plain downloads (stream and parallel) over file sizes around multiples   *)
(*    of the part size with transient faults on chosen requests;               *)
(*  - hash-verified downloads and CDN downloads against an adversary that      *)
(*    corrupts, truncates, extends or swaps the data of one request;           *)
(*  - the CDN request plan, transcribed, with its validity checked by TLC for  *)
(*    every (offset, limit) on the 4 KiB grid.                                 *)
EXTENDS Integers, Sequences, FiniteSets, TLC, Json

CONSTANTS Thorough, PlanMax
KiB == 1024

\* ---------------------------------------------------------------- C33
Sizes(p) == {0, 1, p - 1, p, p + 1, 2 * p, 3 * p, 3 * p + 1, 5 * p + 7}
FaultsP == { <<>>, <<[part |-> 0, kind |-> "timeout"]>>, <<[part |-> 1, kind |-> "timeout"], [part |-> 1, kind |-> "timeout"]>>,
             <<[part |-> 0, kind |-> "flood"]>>, <<[part |-> 2, kind |-> "flood"]>>, <<[part |-> 99, kind |-> "timeout_last"]>> }
PlainCases == UNION { { [cls |-> "plain", in |-> [kind |-> "plain", size |-> s, part |-> p, threads |-> t, mode |-> m, faults |-> f],
                         expect |-> [err |-> FALSE, equal |-> TRUE, length |-> s, type_ok |-> TRUE, duplicates |-> 0]]
                        : s \in Sizes(p), t \in {1, 2, 3, 8}, m \in {"stream", "parallel"}, f \in FaultsP }
                      : p \in {4 * KiB, 64 * KiB} }
\* the same with a writer that stalls while the queue between the workers and the writer is full: the last (short) part
\* has been fetched but not handed over when an idle worker asks for the next part (DownloadAlg.tla: Take after the
\* Answer that set stop, before that answer's worker reported)
StallCases == { [cls |-> "plain", in |-> [kind |-> "plain", size |-> (t + 2) * p + 100, part |-> p, threads |-> t, mode |-> "parallel",
                                            faults |-> <<>>, writer |-> "stall"],
                  expect |-> [err |-> FALSE, equal |-> TRUE, length |-> (t + 2) * p + 100, type_ok |-> TRUE, duplicates |-> 0]]
                : t \in {2, 3}, p \in {4 * KiB} }
KeepPlain(c) == /\ (c.in.mode = "stream" => c.in.threads = 1)
                /\ (c.in.faults # <<>> => c.in.part = 4 * KiB /\ c.in.size >= 3 * c.in.part /\ c.in.threads \in {1, 2, 3})
                /\ (c.in.faults # <<>> /\ c.in.faults[1].kind = "flood" => c.in.threads \in {2, 3} /\ c.in.mode = "parallel")

\* ---------------------------------------------------------------- C34
Window == 128 * KiB
\* under attack: the download fails, or it completes with exactly the genuine file (the attack did not reach it);
\* in neither case a byte that differs from the genuine file is handed to the writer
Guarded(s) == << [err |-> TRUE, delivered_bad |-> FALSE], [err |-> FALSE, equal |-> TRUE, length |-> s, delivered_bad |-> FALSE] >>
\* "extend": a few bytes appended to the final (short) answer; "extend_full": every partial answer that crosses the end of
\* the file is padded up to the requested length (it no longer looks like a final answer) while whole hash windows are
\* served honestly
Attacks == {"none", "flip_first", "flip_last", "truncate", "extend", "extend_full", "swap", "zero"}
\* which request the adversary touches: the k-th data request (0-based) or the last one
VerifyCases == { [cls |-> "verify", in |-> [kind |-> "verify", size |-> s, threads |-> t, mode |-> m, attack |-> a, at |-> k],
                  expect_any |-> IF a = "none" THEN <<[err |-> FALSE, equal |-> TRUE, length |-> s]>> ELSE Guarded(s)]
                 : s \in {Window - 5, Window, 2 * Window + 100, 3 * Window}, t \in {1, 3}, m \in {"stream", "parallel"}, a \in Attacks, k \in {0, 1, 99} }
KeepVerify(c) == (c.in.mode = "stream" => c.in.threads = 1) /\ (c.in.attack = "none" => c.in.at = 0)
                 /\ (c.in.at = 1 => c.in.size > Window)
\* control events on the e-th CDN request (sub-requests of one part count separately): the CDN asks for a re-upload,
\* the file token is refused and master issues a new redirect, or it is refused and master serves the file itself
Events == {"none"} \cup { ev \o n : ev \in {"reupload@", "token_invalid@", "token_invalid_direct@"}, n \in {"1", "2", "3"} }
CdnCases == { [cls |-> "cdn", in |-> [kind |-> "cdn", size |-> s, part |-> p, threads |-> t, attack |-> a, at |-> k, event |-> e],
               expect_any |-> IF a = "none" THEN <<[err |-> FALSE, equal |-> TRUE, length |-> s]>> ELSE Guarded(s)]
              : s \in {Window - 5, 2 * Window, 2 * Window + 4 * KiB + 7, 3 * Window + 100},
                p \in {64 * KiB, 96 * KiB, 128 * KiB, 512 * KiB}, t \in {1, 3}, a \in Attacks, k \in {0, 1, 99},
                e \in Events }
KeepCdn(c) == /\ (c.in.attack = "none" => c.in.at = 0) /\ (c.in.attack # "none" => c.in.event = "none")
              /\ (c.in.event # "none" => c.in.threads = 1)
              /\ (c.in.threads = 3 => c.in.part \in {96 * KiB, 128 * KiB} /\ c.in.attack \in {"none", "flip_last", "extend", "extend_full"})
              /\ (Thorough \/ c.in.at # 1)

\* ---------------------------------------------------------------- CDN request plan
CdnMin == 4 * KiB
CdnMax == 1024 * KiB
RECURSIVE Largest(_)
Largest(m) == IF m < CdnMin THEN 0 ELSE IF CdnMax % m = 0 THEN m ELSE Largest(m - CdnMin)
RECURSIVE Plan(_, _)
Plan(off, rem) ==
  IF rem <= 0 THEN <<>>
  ELSE LET left == CdnMax - (off % CdnMax)
           step == Largest(IF rem > left THEN left ELSE rem)
       IN <<<<off, step>>>> \o Plan(off + step, rem - step)
ValidStep(r) == r[1] % CdnMin = 0 /\ r[2] % CdnMin = 0 /\ r[2] > 0 /\ CdnMax % r[2] = 0
                /\ (r[1] \div CdnMax) = ((r[1] + r[2] - 1) \div CdnMax)
RECURSIVE Covers(_, _, _)
Covers(pl, off, lim) == IF pl = <<>> THEN lim = 0 ELSE Head(pl)[1] = off /\ Covers(Tail(pl), off + Head(pl)[2], lim - Head(pl)[2])
Grid == {k * CdnMin : k \in 0..(PlanMax \div CdnMin)}
ASSUME PlanValid == \A o \in Grid : \A l \in Grid \ {0} :
          LET pl == Plan(o, l) IN Covers(pl, o, l) /\ \A j \in 1..Len(pl) : ValidStep(pl[j])
PlanCases == { [cls |-> "plan", in |-> [kind |-> "plan", offset |-> o, limit |-> l], expect |-> [ok |-> TRUE, plan |-> Plan(o, l)]]
               : o \in {x \in Grid : Thorough \/ x % (64 * KiB) \in {0, 4 * KiB, 60 * KiB}}, l \in {x \in Grid \ {0} : Thorough \/ x % (32 * KiB) \in {0, 4 * KiB, 28 * KiB}} }
             \cup { [cls |-> "plan", in |-> [kind |-> "plan", offset |-> o, limit |-> l], expect |-> [ok |-> FALSE]]
                    : o \in {0, 1, 4095, 4097, -4096}, l \in {0, -4096, 1, 4095, 4097} }
ASSUME Dump == \A c \in {x \in PlainCases : KeepPlain(x)} \cup StallCases \cup {x \in VerifyCases : KeepVerify(x)} \cup {x \in CdnCases : KeepCdn(x)} \cup PlanCases : PrintT(ToJson(c))
=============================================================================
