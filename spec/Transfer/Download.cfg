CONSTANTS Thorough = FALSE PlanMax = 1114112
