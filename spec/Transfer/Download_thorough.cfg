CONSTANTS Thorough = TRUE PlanMax = 1572864
