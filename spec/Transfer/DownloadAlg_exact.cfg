CONSTANTS Full = 4 Tail = 0 Workers = {1, 2, 3} MaxFaults = 2 RetryAfterStop = TRUE
INIT Init
NEXT Next
INVARIANTS Complete BoundedOvershoot
CHECK_DEADLOCK FALSE
