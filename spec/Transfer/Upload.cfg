CONSTANT Thorough = FALSE
