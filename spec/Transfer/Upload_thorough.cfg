CONSTANT Thorough = TRUE
