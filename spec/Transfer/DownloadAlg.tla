----------------------------- MODULE DownloadAlg -----------------------------
(* C33 (design half).  The parallel download loop of telegram/downloader:     *)
(* workers take the next offset under a mutex, fetch the block (retrying on    *)
(* FLOOD_WAIT and retryable timeouts), hand it to the writer, and stop when a  *)
(* short or empty block shows the end of the file.  Offsets are taken in       *)
(* order but complete in any order.                                            *)
EXTENDS Integers, FiniteSets, TLC

CONSTANTS Full,       \* number of full blocks
          Tail,       \* 1 if the file has a non-empty short last block
          Workers, MaxFaults,
          RetryAfterStop   \* FALSE models a reader that gives up retrying once the end was seen (a seeded defect)

N == Full + Tail      \* blocks with data: indices 0..N-1
Kind(i) == IF i < Full THEN "full" ELSE IF i = Full /\ Tail = 1 THEN "short" ELSE "empty"

VARIABLES alloc, pc, cur, written, stop, faults, dup
vars == <<alloc, pc, cur, written, stop, faults, dup>>

Init == /\ alloc = 0 /\ pc = [w \in Workers |-> "idle"] /\ cur = [w \in Workers |-> -1]
        /\ written = {} /\ stop = FALSE /\ faults = 0 /\ dup = FALSE

Take(w) == /\ pc[w] = "idle" /\ ~stop
           /\ cur' = [cur EXCEPT ![w] = alloc] /\ alloc' = alloc + 1 /\ pc' = [pc EXCEPT ![w] = "req"]
           /\ UNCHANGED <<written, stop, faults, dup>>
Exit(w) == /\ pc[w] = "idle" /\ stop /\ pc' = [pc EXCEPT ![w] = "done"]
           /\ UNCHANGED <<alloc, cur, written, stop, faults, dup>>
\* transient error: the request is repeated
Fault(w) == /\ pc[w] = "req" /\ faults < MaxFaults /\ faults' = faults + 1
            /\ IF RetryAfterStop \/ ~stop THEN UNCHANGED <<pc, stop>>
               ELSE pc' = [pc EXCEPT ![w] = "done"] /\ UNCHANGED stop     \* gives up: treated as an empty block
            /\ UNCHANGED <<alloc, cur, written, dup>>
Answer(w) == /\ pc[w] = "req"
             /\ LET k == Kind(cur[w]) IN
                /\ written' = IF k = "empty" THEN written ELSE written \cup {cur[w]}
                /\ dup' = (dup \/ (k # "empty" /\ cur[w] \in written))
                /\ stop' = (stop \/ k # "full")
                /\ pc' = [pc EXCEPT ![w] = IF k = "full" THEN "idle" ELSE "done"]
             /\ UNCHANGED <<alloc, cur, faults>>
Next == \E w \in Workers : Take(w) \/ Exit(w) \/ Fault(w) \/ Answer(w)
Spec == Init /\ [][Next]_vars

Finished == \A w \in Workers : pc[w] = "done"
\* no gap, no duplicate once every worker has returned
Complete == Finished => (written = 0..(N - 1) /\ ~dup)
\* never ask far beyond what the workers can have in flight
BoundedOvershoot == alloc <= N + Cardinality(Workers)
=============================================================================
