------------------------------- MODULE Upload -------------------------------
(* C32.  Uploads (telegram/uploader): the source is split into parts of the    *)
(* part size, numbered 0..n-1; the part size is either explicit or chosen      *)
(* automatically (doubling from 128 KiB up to 512 KiB) so that n stays within   *)
(* 3999; files above 10 MiB (or of unknown size) use the big-file method.      *)
(* The arithmetic is transcribed and checked by TLC on a grid of totals; the   *)
(* cases carry the expected part sequence for the real Uploader.               *)
EXTENDS Integers, Sequences, FiniteSets, TLC, Json

CONSTANT Thorough
KiB == 1024
MaxPart == 512 * KiB
DefaultPart == 128 * KiB
BigLimit == 10 * 1024 * KiB
PartsLimit == 3999

Parts(p, total) == IF total <= 0 THEN 0 ELSE (total + p - 1) \div p
RECURSIVE AutoFrom(_, _)
AutoFrom(p, total) == IF p < MaxPart /\ Parts(p, total) > PartsLimit THEN AutoFrom(2 * p, total) ELSE p
AutoPart(total) == AutoFrom(DefaultPart, total)
LegalPart(p) == p > 0 /\ p % KiB = 0 /\ MaxPart % p = 0
LegalParts == {p \in {k * KiB : k \in 1..512} : LegalPart(p)}
Big(total, known) == ~known \/ total > BigLimit
LastLen(p, total) == IF total = 0 THEN 0 ELSE IF total % p = 0 THEN p ELSE total % p

\* totals around multiples of the part size, the big-file threshold and the part limit for every automatic size
Around(x) == {x - 1, x, x + 1} \cap 0..2147483000
Grid == UNION {Around(k * DefaultPart) : k \in 0..3} \cup Around(BigLimit)
        \cup UNION {Around(PartsLimit * p) : p \in {DefaultPart, 2 * DefaultPart, MaxPart}}
        \cup UNION {Around((PartsLimit + 1) * p) : p \in {DefaultPart, 2 * DefaultPart}}

\* automatic sizing keeps the part count within the limit whenever any legal part size can
ASSUME AutoKeepsLimit == \A t \in Grid : t <= PartsLimit * MaxPart => Parts(AutoPart(t), t) <= PartsLimit
ASSUME AutoIsLegal == \A t \in Grid : LegalPart(AutoPart(t))
ASSUME PartitionExact == \A t \in Grid : \A p \in {DefaultPart, MaxPart, KiB} :
                            Parts(p, t) * p >= t /\ (t > 0 => (Parts(p, t) - 1) * p + LastLen(p, t) = t)

\* cases for the real uploader: moderate totals so that the bytes can be produced and checked
Totals == {0, 1, KiB - 1, KiB, KiB + 1, 3 * KiB, 128 * KiB - 1, 128 * KiB, 128 * KiB + 1, 384 * KiB, BigLimit - 1, BigLimit, BigLimit + 1}
          \cup (IF Thorough THEN {PartsLimit * DefaultPart, PartsLimit * DefaultPart + 1, PartsLimit * 2 * DefaultPart + 1, PartsLimit * MaxPart - 5} ELSE {PartsLimit * DefaultPart + 1})
Faults == { <<>>, <<[part |-> 0, kind |-> "false"]>>, <<[part |-> 1, kind |-> "false"], [part |-> 1, kind |-> "false"]>>,
            <<[part |-> 0, kind |-> "flood"]>> }
Explicit == {0, KiB, 4 * KiB, 128 * KiB, MaxPart}     \* 0 = automatic
PartUsed(ps, total, known) == IF ps = 0 THEN (IF known /\ total > 0 THEN AutoPart(total) ELSE DefaultPart) ELSE ps

Case(total, ps, known, threads, f) ==
  LET p == PartUsed(ps, total, known)
      n == Parts(p, total)
      big == Big(total, known)
  IN [cls |-> "upload", in |-> [kind |-> "upload", total |-> total, partsize |-> ps, known |-> known, threads |-> threads, faults |-> f],
      expect |-> IF ~big /\ n > PartsLimit THEN [ok |-> FALSE]
                 ELSE [ok |-> TRUE, big |-> big, parts |-> n, partsize |-> p, lastlen |-> LastLen(p, total), each_once |-> TRUE,
                       content_ok |-> TRUE, sizes_ok |-> TRUE, md5_ok |-> TRUE, descriptor_parts |-> n, total_parts_ok |-> TRUE]]

Cases == { Case(t, ps, k, th, f) : t \in Totals, ps \in Explicit, k \in BOOLEAN, th \in {1, 3, 8}, f \in Faults }
\* keep the enumeration affordable: faults only with small totals, tiny explicit parts only with small totals
Keep(c) == /\ (c.in.faults # <<>> => c.in.total <= 384 * KiB /\ c.in.total >= 3 * KiB /\ c.in.threads \in {1, 3})
           /\ (c.in.partsize \in {KiB, 4 * KiB} => c.in.total <= 384 * KiB)
           /\ (c.in.total > BigLimit + 1 => c.in.threads = 8 /\ c.in.partsize \in {0, MaxPart})
           /\ (c.in.threads # 1 => c.in.partsize \in {0, 4 * KiB, MaxPart})
ASSUME Dump == \A c \in {x \in Cases : Keep(x)} : PrintT(ToJson(c))
=============================================================================
