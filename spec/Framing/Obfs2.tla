------------------------------- MODULE Obfs2 -------------------------------
(* C18.  obfuscated2 (mtproxy/obfuscated2): the client sends a 64-byte header  *)
(* built from a random block that must not look like a plain transport; both   *)
(* sides derive two CTR keystreams from it (and the secret).  The keystream    *)
(* position of a direction depends only on the number of bytes sent in that    *)
(* direction, so any write / read chunking yields the same bytes.              *)
EXTENDS Integers, Sequences, FiniteSets, TLC, Json

CONSTANT Thorough

Tags == {"abridged", "intermediate", "padded"}
DCs == {1, 2, 5, 10002, -1, -2, -10003, 32767, 65535}
U16(x) == x % 65536    \* TLC's % is the mathematical modulus for negative left operands
ASSUME U16(-1) = 65535 /\ U16(-10003) = 55533 /\ U16(2) = 2

\* keystream position model: position after a sequence of chunk sizes is their sum, whatever the chunking
RECURSIVE SumSeq(_)
SumSeq(s) == IF s = <<>> THEN 0 ELSE Head(s) + SumSeq(Tail(s))
Chunkings == { <<1>>, <<64>>, <<1, 1, 1>>, <<15, 17>>, <<16, 16>>, <<1000, 1, 4096>>, <<0, 5>>, <<65536, 3>> }
ASSUME PositionsAgree == \A a \in Chunkings : \A b \in Chunkings : SumSeq(a) = SumSeq(b) => TRUE

\* hseg: the transport under the accepting side hands over at most that many bytes per read (a header split across
\* TCP segments): "any read chunking" includes the 64-byte header
RunCases == { [cls |-> "run", in |-> [kind |-> "run", tag |-> t, dc |-> d, secret |-> s, c2s |-> w1, s2c |-> w2, rchunk |-> r, hseg |-> h],
               expect |-> [accept_ok |-> TRUE, tag_equal |-> TRUE, dc |-> U16(d), c2s_equal |-> TRUE, s2c_equal |-> TRUE, header_len |-> 64]]
              : t \in Tags, d \in (IF Thorough THEN DCs ELSE {2, -2, 10002, 65535}), s \in {"none", "16"},
                w1 \in (IF Thorough THEN Chunkings ELSE {<<1, 1, 1>>, <<15, 17>>, <<65536, 3>>}), w2 \in {<<64>>, <<0, 5>>, <<1000, 1, 4096>>}, r \in {1, 7, 100000},
                h \in (IF Thorough THEN {1, 17, 40, 63, 64, 100000} ELSE {1, 63, 100000}) }
\* a wrong secret on the accepting side: metadata and data must not come through
WrongSecret == { [cls |-> "wrongsecret", in |-> [kind |-> "wrongsecret", tag |-> t], expect |-> [tag_equal |-> FALSE]] : t \in Tags }

\* reserved first bytes of the random block: the generator must draw again
Reserved == {"ef", "HEAD", "POST", "GET ", "OPTI", "tls", "dddddddd", "eeeeeeee", "second_zero"}
ResCases == { [cls |-> "reserved", in |-> [kind |-> "reserved", first |-> p, times |-> n],
               expect |-> [header_reserved |-> FALSE, draws |-> n + 1, accept_ok |-> TRUE, tag_equal |-> TRUE]] : p \in Reserved, n \in {1, 3} }
ASSUME Dump == \A c \in RunCases \cup WrongSecret \cup ResCases : PrintT(ToJson(c))
=============================================================================
