------------------------------- MODULE Codec -------------------------------
(* C16 / C17: MTProto transport codecs (abridged, intermediate, padded       *)
(* intermediate, full).                                                       *)
(* The framing is specified here (header sizes, length encoding, overheads,   *)
(* limits); TLC checks writer/reader agreement of the specification on every  *)
(* enumerated frame sequence and enumerates: frame sequences x cut positions  *)
(* (C16), and adversarial length prefixes x stream continuations (C17).       *)
EXTENDS Integers, Sequences, FiniteSets, TLC, Json

CONSTANTS Thorough

Codecs == {"abridged", "intermediate", "padded", "full"}
Limit == 16777216       \* 1 << 24, frame limit of every codec
PayloadLens == {8, 12, 504, 508, 512, 1024}    \* both sides of the 127-word boundary

\* ---- specification of the framing -----------------------------------------
HdrLen(c, l) == CASE c = "abridged" -> IF l \div 4 < 127 THEN 1 ELSE 4
                  [] c = "intermediate" -> 4
                  [] c = "padded" -> 4
                  [] c = "full" -> 8
TrailLen(c) == IF c = "full" THEN 4 ELSE 0
\* value carried in the length field
LenField(c, l, pad) == CASE c = "abridged" -> l \div 4
                         [] c = "intermediate" -> l
                         [] c = "padded" -> l + pad
                         [] c = "full" -> l + 12
\* reader: payload length recovered from the length field
PayloadOf(c, f) == CASE c = "abridged" -> f * 4
                     [] c = "intermediate" -> f
                     [] c = "padded" -> f - (f % 4)
                     [] c = "full" -> f - 12
ASSUME ReaderInvertsWriter ==
  \A c \in Codecs : \A l \in PayloadLens \cup {4, 16777212} : \A pad \in 0..3 :
     (c = "padded" \/ pad = 0) => PayloadOf(c, LenField(c, l, pad)) = l
ASSUME AbridgedBoundary == HdrLen("abridged", 504) = 1 /\ HdrLen("abridged", 508) = 4

\* ---- C16 cases --------------------------------------------------------------
FrameSeqs == UNION { [1..n -> PayloadLens] : n \in 1..(IF Thorough THEN 3 ELSE 2) }
\* cut descriptors: one cut inside frame k at a position class, or a fixed chunk size for the whole stream
CutPos == {"h1", "h2", "h3", "hdr", "hdr+1", "mid", "end-1", "end"}
Chunkings == {[kind |-> "whole"]} \cup { [kind |-> "fixed", n |-> n] : n \in {1, 2, 3, 5, 7, 13} }
SingleCuts(s) == { [kind |-> "cut", frame |-> k, at |-> p] : k \in 1..Len(s), p \in CutPos }
AllCuts == {[kind |-> "allcuts"]}
C16Cases == { [cls |-> "roundtrip", in |-> [kind |-> "roundtrip", codec |-> c, frames |-> s, chunking |-> ch],
               expect |-> [frames_equal |-> TRUE, count |-> Len(s), err |-> FALSE]]
              : c \in Codecs, s \in FrameSeqs, ch \in Chunkings \cup AllCuts }
C16CutCases == UNION { { [cls |-> "roundtrip", in |-> [kind |-> "roundtrip", codec |-> c, frames |-> s, chunking |-> ch],
               expect |-> [frames_equal |-> TRUE, count |-> Len(s), err |-> FALSE]] : ch \in SingleCuts(s) }
              : c \in Codecs, s \in FrameSeqs }
\* four-byte frames are transport error codes
ErrCodes == {404, 429, 444, 1}
C16ErrCases == { [cls |-> "errcode", in |-> [kind |-> "errcode", codec |-> c, code |-> e, before |-> b],
                  expect |-> [errcode |-> e, frames_before |-> b]] : c \in Codecs, e \in ErrCodes, b \in {0, 1} }
\* listener detection + concurrent senders over the real transport
Protos == {"abridged", "intermediate", "padded", "full"}
C16TransportCases == { [cls |-> "transport", in |-> [kind |-> "transport", proto |-> p, senders |-> n, each |-> 3],
                        expect |-> [detected |-> TRUE, all_received |-> TRUE, per_sender_order |-> TRUE]] : p \in Protos, n \in {1, 2, 3} }

\* ---- C17 cases --------------------------------------------------------------
Prefix4 == {0, 1, 2, 3, 4, 5, 7, 8, 9, 11, 12, 13, 16, 16777215, 16777216, 16777217, 2147483647, -1, -2147483647}
AbrFirst == {0, 1, 126, 127, 128, 255}
Abr3 == {0, 1, 126, 127, 4194303, 4194304, 4194305, 16777215}
Conts == {"eof", "short", "enough"}
\* specification of the reader on an adversarial prefix: the frame must fit the limit and the codec overhead
Spec4(c, n, cont) == IF n <= 0 \/ n > Limit THEN "error"
                     ELSE IF c = "full" /\ n < 12 THEN "error"
                     ELSE IF cont # "enough" THEN "error"
                     ELSE "any"            \* a frame, or an error (crc, seqno): both allowed
SpecAbr(words, cont) == IF words * 4 > Limit THEN "error"
                        ELSE IF cont # "enough" /\ words > 0 THEN "error" ELSE "any"
C17Cases4 == { [cls |-> "prefix", in |-> [kind |-> "prefix", codec |-> c, n |-> n, cont |-> ct],
                expect |-> [nopanic |-> TRUE, alloc_ok |-> TRUE] @@ (IF Spec4(c, n, ct) = "error" THEN [outcome |-> "error"] ELSE [nopanic |-> TRUE])]
               : c \in {"intermediate", "padded", "full"}, n \in Prefix4, ct \in Conts }
C17CasesA == { [cls |-> "prefix", in |-> [kind |-> "aprefix", codec |-> "abridged", first |-> f, n |-> n, cont |-> ct],
                expect |-> [nopanic |-> TRUE, alloc_ok |-> TRUE] @@
                           (IF SpecAbr(IF f >= 127 THEN n ELSE f, ct) = "error" THEN [outcome |-> "error"] ELSE [nopanic |-> TRUE])]
               : f \in AbrFirst, n \in Abr3, ct \in Conts }
C17MutCases == { [cls |-> "mutated", in |-> [kind |-> "mutated", codec |-> c, frames |-> s, mut |-> m],
                  expect |-> [nopanic |-> TRUE, alloc_ok |-> TRUE]]
                 : c \in Codecs, s \in {<<8>>, <<508, 8>>, <<1024, 504>>}, m \in {"flip", "truncate", "extend", "zeros", "ones", "random"} }

Which == IF Thorough THEN "all" ELSE "all"
ASSUME Dump16 == \A c \in C16Cases \cup C16CutCases \cup C16ErrCases \cup C16TransportCases : PrintT(ToJson([prop |-> "C16"] @@ c))
ASSUME Dump17 == \A c \in C17Cases4 \cup C17CasesA \cup C17MutCases : PrintT(ToJson([prop |-> "C17"] @@ c))
=============================================================================
