CONSTANT Thorough = FALSE
