CONSTANT Thorough = FALSE
