------------------------------ MODULE FakeTLS ------------------------------
(* C19.  FakeTLS record layer and ServerHello digest (mtproxy/faketls).  A     *)
(* write of n bytes must reach the peer as TLS application records whose       *)
(* declared 16-bit length equals the actual length; the reader reassembles the *)
(* byte stream under any read chunking.  The handshake succeeds exactly when   *)
(* the ServerHello carries HMAC(secret, client random || hello with zero       *)
(* digest).                                                                    *)
EXTENDS Integers, Sequences, FiniteSets, TLC, Json

CONSTANT Thorough
MaxRec == 65535

\* record lengths a write of n bytes is split into (the repaired writer); any split with these properties is fine
RECURSIVE Recs(_)
Recs(n) == IF n = 0 THEN <<>> ELSE IF n <= MaxRec THEN <<n>> ELSE <<MaxRec>> \o Recs(n - MaxRec)
RECURSIVE SumSeq(_)
SumSeq(s) == IF s = <<>> THEN 0 ELSE Head(s) + SumSeq(Tail(s))
Sizes == {0, 1, 5, 16384, 65534, 65535, 65536, 65537, 131070, 131071, 200000} \cup (IF Thorough THEN {2, 32768, 196605, 196606, 1048576, 3000000} ELSE {})
ASSUME RecordsFit == \A n \in Sizes : SumSeq(Recs(n)) = n /\ \A j \in 1..Len(Recs(n)) : Recs(n)[j] \in 1..MaxRec

Chunks == {1, 7, 4096, 65535, 65536, 1000000}
Writes == { <<a>> : a \in Sizes } \cup { <<a, b>> : a \in Sizes, b \in {0, 1, 65535, 65536, 200000} }
          \cup (IF Thorough THEN { <<a, b, c>> : a \in {1, 65536}, b \in {0, 65535, 131071}, c \in {5, 65537} } ELSE { <<65536, 0, 65537>>, <<1, 131071, 5>> })
StreamCases == { [cls |-> "stream", in |-> [kind |-> "stream", writes |-> w, chunk |-> c, dir |-> d],
                  expect |-> [equal |-> TRUE, total |-> SumSeq(w), declared_ok |-> TRUE]] : w \in Writes, c \in Chunks, d \in {"c2s", "s2c"} }

Hello == {"right", "wrong_secret", "wrong_random", "flipped_digest", "zero_digest", "digest_of_other_packet", "no_ccs", "extra_handshake_records"}
HelloCases == { [cls |-> "hello", in |-> [kind |-> "hello", how |-> h], expect |-> [ok |-> (h \in {"right", "extra_handshake_records"})]] : h \in Hello }
\* one endpoint used in both directions at once (the transport reads in one goroutine and writes in another): the
\* inbound record arrives in two pieces, split after `split` bytes (0..4 inside the 5-byte header, more inside the
\* payload); while the reader waits for the second piece the endpoint writes `wsize` bytes.  Both directions are intact.
DuplexCases == { [cls |-> "duplex", in |-> [kind |-> "duplex", split |-> k, wsize |-> w, rsize |-> r, first |-> f],
                  expect |-> [read_equal |-> TRUE, write_declared_ok |-> TRUE, write_equal |-> TRUE]]
                 : k \in {0, 1, 3, 4, 5, 9}, w \in {1, 300, 65536}, r \in {10, 70000}, f \in BOOLEAN }
ASSUME Dump == \A c \in StreamCases \cup HelloCases \cup DuplexCases : PrintT(ToJson(c))
=============================================================================
