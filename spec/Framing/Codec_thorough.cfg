CONSTANTS Thorough = TRUE
