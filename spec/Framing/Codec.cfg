CONSTANTS Thorough = FALSE
