CONSTANT Thorough = TRUE
