CONSTANT Thorough = TRUE
