---------------------------- MODULE UpdatesProp ----------------------------
(* Property-level trace judge for the updates manager (C01 manager level,     *)
(* C02, C03).  It knows the server log of the run (reset event) and sees only *)
(* what a user can observe: handler calls, storage writes, difference answers *)
(* (the position a fetched difference covers), too-long callbacks, restarts   *)
(* and the end of a completed recovery.                                        *)
(*   Check = "C01": an update is handed to the handler at most once per run,  *)
(*                  and a pushed one only when every earlier position of its  *)
(*                  sequence was delivered or covered by a fetched difference  *)
(*   Check = "C02": at the end of a completed recovery every produced update   *)
(*                  was delivered (runs without crash)                        *)
(*   Check = "C03": no storage write covers an undelivered update unless the  *)
(*                  too-long callback fired; after crash + restart + recovery  *)
(*                  nothing is missing across both runs                       *)
EXTENDS Integers, Sequences, FiniteSets, TLC, Json, IOUtils

CONSTANT Check
Trace == ndJsonDeserialize(IOEnv.TRACE_FILE)

VARIABLES i, tr, log, hr, he, tl, cb, cov, stor, crashed, offered
vars == <<i, tr, log, hr, he, tl, cb, cov, stor, crashed, offered>>

Ev == Trace[i]
IsC(k) == k \in {"M", "O", "A"}
\* "A": a pts increment caused by an own request (messages.affected*): it occupies a position, there is nothing to deliver
Deliverable(k) == k # "A"
IsQ(k) == k \in {"Q", "E"}
IsCh(k) == k \in {"CM", "CO"}
\* "CR": a channel update with a position but no count (read mark): outside the ordered sequence; when a channel
\* difference carries it, it must be delivered
IsCR(k) == k = "CR"
CPos(n) == Cardinality({j \in 1..n : IsC(log[j])})
QPos(n) == Cardinality({j \in 1..n : IsQ(log[j])})
ChPos(n) == Cardinality({j \in 1..n : IsCh(log[j])})
Mx(a, b) == IF a > b THEN a ELSE b

Init == /\ i = 1 /\ tr = -1 /\ log = <<>> /\ hr = {} /\ he = {} /\ tl = [c |-> 0, ch |-> 0]
        /\ cb = 0 /\ cov = [pts |-> 0, qts |-> 0, ch |-> 0] /\ stor = [pts |-> 0, qts |-> 0, seq |-> 0, ch |-> -1]
        /\ crashed = FALSE /\ offered = {}

Reset == /\ Ev.ev = "reset"
         /\ tr' = Ev.trace /\ log' = Ev.log /\ hr' = {} /\ he' = {} /\ tl' = [c |-> 0, ch |-> 0]
         /\ cb' = 0 /\ cov' = [pts |-> 0, qts |-> 0, ch |-> 0]
         /\ stor' = [pts |-> 0, qts |-> 0, seq |-> 0, ch |-> IF Ev.tracked0 THEN 0 ELSE -1]
         /\ crashed' = FALSE /\ offered' = {}

Skip == /\ Ev.ev \in {"act", "post"} /\ UNCHANGED <<tr, log, hr, he, tl, cb, cov, stor, crashed, offered>>

Covered(j) ==
  IF IsC(log[j]) THEN CPos(j) <= cov.pts \/ j <= tl.c
  ELSE IF IsQ(log[j]) THEN QPos(j) <= cov.qts \/ j <= tl.c
  ELSE ChPos(j) <= cov.ch \/ ChPos(j) <= cb \/ j <= tl.ch
SameSeq(a, b) == (IsC(log[a]) /\ IsC(log[b])) \/ (IsQ(log[a]) /\ IsQ(log[b])) \/ (IsCh(log[a]) /\ IsCh(log[b]))

Handler ==
  /\ Ev.ev = "h"
  /\ LET ids == {Ev.ids[k] : k \in 1..Len(Ev.ids)} \ {0} IN
     /\ ids \subseteq 1..Len(log)
     /\ (Check = "C01") =>
           /\ \A x \in ids : x \notin hr \/ IsCR(log[x])
           \* no update twice in one batch either; a zero-count update (read mark) occupies no position and may be
           \* handed over again, across calls (above) as well as when a stale buffered copy rides along in one call
           /\ \A a, b \in 1..Len(Ev.ids) : (a # b /\ Ev.ids[a] # 0 /\ Ev.ids[a] = Ev.ids[b]) => IsCR(log[Ev.ids[a]])
           /\ (Ev.via = "push") => \A x \in {y \in ids : ~IsCR(log[y])} : \A j \in 1..(x - 1) :
                   (SameSeq(x, j) /\ Deliverable(log[j])) => (j \in hr \/ j \in ids \/ Covered(j))
     /\ hr' = hr \cup ids /\ he' = he \cup ids
  /\ UNCHANGED <<tr, log, tl, cb, cov, stor, crashed, offered>>

PersistOK(s, base) ==
  \A j \in 1..Len(log) :
     /\ (IsC(log[j]) /\ Deliverable(log[j]) /\ CPos(j) <= s.pts) => (j \in he \/ j <= tl.c)
     /\ (IsQ(log[j]) /\ QPos(j) <= s.qts) => (j \in he \/ j <= tl.c)
     /\ (IsCh(log[j]) /\ s.ch # -1 /\ ChPos(j) <= s.ch /\ ChPos(j) > base) => (j \in he \/ j <= tl.ch)

Store ==
  /\ Ev.ev = "s"
  /\ LET s2 == [stor EXCEPT ![Ev.k] = Ev.v]
         b2 == IF Ev.k = "ch" /\ stor.ch = -1 THEN Ev.v ELSE cb IN
     /\ (Check = "C03") => PersistOK(s2, b2)
     /\ stor' = s2 /\ cb' = b2
  /\ UNCHANGED <<tr, log, hr, he, tl, cov, crashed, offered>>

StoreState ==
  /\ Ev.ev = "ss"
  /\ LET s2 == [stor EXCEPT !.pts = Ev.pts, !.qts = Ev.qts, !.seq = Ev.seq] IN
     /\ (Check = "C03") => PersistOK(s2, cb)
     /\ stor' = s2
  /\ UNCHANGED <<tr, log, hr, he, tl, cb, cov, crashed, offered>>

Diff ==
  /\ Ev.ev = "diff"
  /\ cov' = IF Ev.k = "c" THEN [cov EXCEPT !.pts = Mx(@, Ev.pts), !.qts = Mx(@, Ev.qts)]
            ELSE [cov EXCEPT !.ch = Mx(@, Ev.pts)]
  /\ offered' = offered \cup (IF "cr" \in DOMAIN Ev THEN {Ev.cr[k] : k \in 1..Len(Ev.cr)} ELSE {})
  /\ UNCHANGED <<tr, log, hr, he, tl, cb, stor, crashed>>

TooLong ==
  /\ Ev.ev = "tl"
  \* the report covers what the server held when it was made (updates produced later form a new gap)
  /\ tl' = [tl EXCEPT ![Ev.k] = Mx(@, Ev.upto)]
  /\ UNCHANGED <<tr, log, hr, he, cb, cov, stor, crashed, offered>>

Restart ==
  /\ Ev.ev = "restart"
  /\ hr' = {} /\ crashed' = TRUE
  /\ cov' = [pts |-> stor.pts, qts |-> stor.qts, ch |-> IF stor.ch = -1 THEN 0 ELSE stor.ch]
  /\ UNCHANGED <<tr, log, he, tl, cb, stor, offered>>

NoLoss(n, tracked) ==
  \A j \in 1..n :
     \/ j \in he \/ ~Deliverable(log[j])
     \/ (IsCR(log[j]) /\ j \notin offered)
     \/ (IsCh(log[j]) /\ (~tracked \/ ChPos(j) <= cb \/ j <= tl.ch))
     \/ (~IsCh(log[j]) /\ j <= tl.c)

Quiesced ==
  /\ Ev.ev = "quiesced"
  /\ ((Check = "C02" /\ ~crashed) \/ (Check = "C03" /\ crashed)) => NoLoss(Ev.produced, Ev.tracked)
  /\ UNCHANGED <<tr, log, hr, he, tl, cb, cov, stor, crashed, offered>>

Next == /\ i <= Len(Trace) /\ i' = i + 1
        /\ (Reset \/ Skip \/ Handler \/ Store \/ StoreState \/ Diff \/ TooLong \/ Restart \/ Quiesced)
Spec == Init /\ [][Next]_vars

Mark == TLCSet(1, i) /\ TLCSet(2, tr)
Accepted == IF TLCGet(1) = Len(Trace) + 1 THEN TRUE
            ELSE PrintT(<<"REJECTED at line", TLCGet(1), "trace", TLCGet(2)>>) /\ FALSE
=============================================================================
