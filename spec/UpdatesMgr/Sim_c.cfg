CONSTANTS Kinds = {"M","O","CM","CO"} MaxLog = 6 MaxPush = 7 SliceLim = 3 ChanLim = 2 UseSeq = TRUE Tracked0 = TRUE MaxCrash = 0 Fixed = TRUE TooLongAt = 0 ChanTooLongAt = 0 DiffLimit = 0 ChanTLPush = FALSE SimDepth = 16
INIT Init
NEXT NextPairs
VIEW View
INVARIANTS PersistBehind AtMostOnce InOrder NoLoss Level
CONSTRAINT Dump
CHECK_DEADLOCK FALSE
