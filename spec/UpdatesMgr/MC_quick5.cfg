CONSTANTS Kinds = {"CM"} MaxLog = 5 MaxPush = 1 SliceLim = 0 ChanLim = 0 UseSeq = FALSE Tracked0 = TRUE MaxCrash = 0 Fixed = TRUE TooLongAt = 0 ChanTooLongAt = 3 DiffLimit = 1 ChanTLPush = TRUE SimDepth = 99
INIT Init
NEXT Next
VIEW View
INVARIANTS PersistBehind AtMostOnce InOrder NoLoss Level
CONSTRAINT DumpQ
CHECK_DEADLOCK FALSE
