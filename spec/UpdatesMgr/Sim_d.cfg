CONSTANTS Kinds = {"M","O","A","Q","CM","CO","CR"} MaxLog = 6 MaxPush = 6 SliceLim = 2 ChanLim = 1 UseSeq = TRUE Tracked0 = TRUE MaxCrash = 1 Fixed = TRUE TooLongAt = 3 ChanTooLongAt = 3 DiffLimit = 2 ChanTLPush = TRUE SimDepth = 16
INIT Init
NEXT NextPairs
VIEW View
INVARIANTS PersistBehind AtMostOnce InOrder NoLoss Level
CONSTRAINT Dump
CHECK_DEADLOCK FALSE
