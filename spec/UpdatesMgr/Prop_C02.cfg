CONSTANT Check = "C02"
SPECIFICATION Spec
CONSTRAINT Mark
POSTCONDITION Accepted
CHECK_DEADLOCK FALSE
