CONSTANTS Kinds = {"M","A","CM","CO"} MaxLog = 3 MaxPush = 1 SliceLim = 0 ChanLim = 0 UseSeq = FALSE Tracked0 = TRUE MaxCrash = 1 Fixed = TRUE TooLongAt = 2 ChanTooLongAt = 2 DiffLimit = 1 ChanTLPush = TRUE SimDepth = 99
INIT Init
NEXT Next
VIEW View
INVARIANTS PersistBehind AtMostOnce InOrder NoLoss Level
CONSTRAINT DumpQ
CHECK_DEADLOCK FALSE
