CONSTANT Check = "C01"
SPECIFICATION Spec
CONSTRAINT Mark
POSTCONDITION Accepted
CHECK_DEADLOCK FALSE
