CONSTANTS Kinds = {"M","CM","CO","CR"} MaxLog = 3 MaxPush = 2 SliceLim = 0 ChanLim = 0 UseSeq = FALSE Tracked0 = TRUE MaxCrash = 1 Fixed = TRUE TooLongAt = 0 ChanTooLongAt = 0 DiffLimit = 0 ChanTLPush = FALSE SimDepth = 99
INIT Init
NEXT Next
VIEW View
INVARIANTS PersistBehind AtMostOnce InOrder NoLoss Level
CONSTRAINT DumpQ
CHECK_DEADLOCK FALSE
