CONSTANT Check = "C03"
SPECIFICATION Spec
CONSTRAINT Mark
POSTCONDITION Accepted
CHECK_DEADLOCK FALSE
