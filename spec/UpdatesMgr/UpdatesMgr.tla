---------------------------- MODULE UpdatesMgr ----------------------------
(* Implementation-shaped model of telegram/updates: internalState (state.go,  *)
(* state_apply.go), channelState (state_channel.go) around four sequence      *)
(* boxes (sequence_box.go), the state storage and the update handler.         *)
(*                                                                            *)
(* One action = one body of the Run loops (the harness parks the loops and    *)
(* calls exactly these bodies).  Every body is a function from the client     *)
(* record to the client record that also appends the observable events it     *)
(* performs, in program order:  h = handler call, s = storage write,          *)
(* ss = storage SetState, tl = too-long callback.  A crash may cut a body     *)
(* after any prefix of its events (C03 quantifies over those points).         *)
(*                                                                            *)
(*   Fixed = FALSE : code before the repairs (difference other_updates go     *)
(*                   through the sequence boxes / the internal queue)         *)
(*   Fixed = TRUE  : repaired code (they are dispatched directly)             *)
EXTENDS Integers, Sequences, FiniteSets, TLC, SequencesExt, Json

CONSTANTS Kinds,        \* subset of {"M","O","Q","E","CM","CO"}
          MaxLog,       \* server log length
          MaxPush,      \* pushes per behaviour
          SliceLim,     \* common difference slice size (0 = one piece)
          ChanLim,      \* channel difference limit (0 = one piece)
          UseSeq,       \* pushed common envelopes may carry seq numbers
          Tracked0,     \* channel tracked (pts 0) from the start
          MaxCrash,     \* crashes per behaviour
          Fixed,
          TooLongAt,    \* the server answers differenceTooLong when that many common pts entries are pending (0 = never)
          ChanTooLongAt,\* same for channelDifferenceTooLong
          DiffLimit,    \* channelState.diffLim: threshold of handleTooLong
          ChanTLPush,   \* updateChannelTooLong pushes enabled
          SimDepth

\* kinds: M new message (pts), O other pts update (delete/read), Q qts update,
\*        E new encrypted message (qts, carried in new_encrypted_messages),
\*        CM new channel message, CO other channel pts update,
\*        A a pts increment of the common sequence with nothing to deliver (messages.affected* result of an own request)
IsC(k) == k \in {"M", "O", "A"}
Deliverable(k) == k # "A"
IsQ(k) == k \in {"Q", "E"}
IsCh(k) == k \in {"CM", "CO"}
\* "CR": a channel update that carries the channel pts but no count (read mark): it never moves the position; it must
\* reach the handler when a channel difference carries it
IsCR(k) == k = "CR"

VARIABLES log, produced, c, handledRun, handledEver, tl, chBase, cover,
          npush, ncrash, quiesced, bad, offered, cancelled,
          act, hist
vars == <<log, produced, c, handledRun, handledEver, tl, chBase, cover, npush, ncrash, quiesced, bad, offered, cancelled, act, hist>>
View == <<log, produced, c, handledRun, handledEver, tl, chBase, cover, npush, ncrash, quiesced, bad, offered, cancelled>>

Mx(a, b) == IF a > b THEN a ELSE b
CPosL(l, i) == Cardinality({j \in 1..i : IsC(l[j])})
QPosL(l, i) == Cardinality({j \in 1..i : IsQ(l[j])})
ChPosL(l, i) == Cardinality({j \in 1..i : IsCh(l[j])})
CPos(i) == CPosL(log, i)
QPos(i) == QPosL(log, i)
ChPos(i) == ChPosL(log, i)
SeqNo(i) == IF UseSeq THEN Cardinality({j \in 1..i : (IsC(log[j]) /\ log[j] # "A") \/ IsQ(log[j])}) ELSE 0

\* ------------------------------------------------------------ sequence box
CheckGap(local, remote, count) ==
  IF remote = 0 THEN "apply"
  ELSE IF local + count = remote THEN "apply"
  ELSE IF local + count > remote THEN "ignore"
  ELSE "refetch"

RECURSIVE FindGap(_, _, _)
FindGap(gs, u, i) ==
  IF i > Len(gs) THEN 0
  ELSE IF gs[i].from <= u.s /\ gs[i].to >= u.e THEN i
  ELSE FindGap(gs, u, i + 1)
DelAt(s, i) == SubSeq(s, 1, i - 1) \o SubSeq(s, i + 1, Len(s))
Consume(gs, u) ==
  LET i == FindGap(gs, u, 1) IN
  IF i = 0 THEN [ok |-> FALSE, gaps |-> gs]
  ELSE LET g == gs[i]
           a == IF g.from < u.s THEN <<[from |-> g.from, to |-> u.s]>> ELSE <<>>
           b == IF g.to > u.e THEN <<[from |-> u.e, to |-> g.to]>> ELSE <<>>
       IN [ok |-> TRUE, gaps |-> DelAt(gs \o a \o b, i)]
RECURSIVE ConsumeAll(_, _, _)
ConsumeAll(gs, p, i) == IF i > Len(p) THEN gs ELSE ConsumeAll(Consume(gs, p[i]).gaps, p, i + 1)

RECURSIVE InsertSorted(_, _)
InsertSorted(sorted, u) ==
  IF sorted = <<>> THEN <<u>>
  ELSE IF Head(sorted).s <= u.s THEN <<Head(sorted)>> \o InsertSorted(Tail(sorted), u)
  ELSE <<u>> \o sorted
RECURSIVE SortByStart(_)
SortByStart(s) == IF s = <<>> THEN <<>> ELSE InsertSorted(SortByStart(SubSeq(s, 1, Len(s) - 1)), s[Len(s)])

RECURSIVE ApplyLoop(_, _, _, _)
ApplyLoop(p, i, st, acc) ==
  IF i > Len(p) THEN [accepted |-> acc, st |-> st, cursor |-> Len(p)]
  ELSE LET r == CheckGap(st, p[i].e, p[i].e - p[i].s) IN
       IF r = "apply" THEN ApplyLoop(p, i + 1, p[i].e, Append(acc, p[i]))
       ELSE IF r = "ignore" THEN ApplyLoop(p, i + 1, st, acc)
       ELSE [accepted |-> acc, st |-> st, cursor |-> i - 1]
ApplyPending(st, p) ==
  LET sp == SortByStart(p)
      r == ApplyLoop(sp, 1, st, <<>>)
  IN [accepted |-> r.accepted, st |-> IF r.accepted = <<>> THEN st ELSE r.st,
      rest |-> SubSeq(sp, r.cursor + 1, Len(sp))]

NewBox(v) == [st |-> v, gaps |-> <<>>, pend |-> <<>>]

\* sequenceBox.Handle: result box, batch handed to apply (<<>> = no call), state passed to apply
BoxHandle(b, u) ==
  LET none(bb) == [b |-> bb, acc |-> <<>>, st |-> bb.st]
      g == CheckGap(b.st, u.e, u.e - u.s) IN
  IF g = "ignore" THEN none(b)
  ELSE IF b.gaps # <<>> THEN
      LET p2 == Append(b.pend, u)
          cs == Consume(b.gaps, u) IN
      IF ~cs.ok THEN none([b EXCEPT !.pend = p2])
      ELSE IF cs.gaps # <<>> THEN none([b EXCEPT !.pend = p2, !.gaps = cs.gaps])
      ELSE LET r == ApplyPending(b.st, p2) IN
           [b |-> [st |-> r.st, gaps |-> <<>>, pend |-> r.rest], acc |-> r.accepted, st |-> r.st]
  ELSE IF g = "apply" THEN
      IF b.pend # <<>> THEN
           LET r == ApplyPending(b.st, Append(b.pend, u)) IN
           [b |-> [b EXCEPT !.st = r.st, !.pend = r.rest], acc |-> r.accepted, st |-> r.st]
      ELSE [b |-> [b EXCEPT !.st = u.e], acc |-> <<u>>, st |-> u.e]
  ELSE \* refetch
      LET p2 == Append(b.pend, u)
          g1 == ConsumeAll(<<[from |-> b.st, to |-> u.s]>>, p2, 1) IN
      IF g1 = <<>> THEN
           LET r == ApplyPending(b.st, p2) IN
           [b |-> [st |-> r.st, gaps |-> <<>>, pend |-> r.rest], acc |-> r.accepted, st |-> r.st]
      ELSE none([b EXCEPT !.pend = p2, !.gaps = g1])

\* ------------------------------------------------------------ client record
Ids(batch) == [k \in 1..Len(batch) |-> batch[k].id]
Dispatch(cc, ids, via) == [cc EXCEPT !.evs = Append(@, [t |-> "h", ids |-> ids, via |-> via])]
SetStor(cc, k, v) == [cc EXCEPT !.stor[k] = v, !.evs = Append(@, [t |-> "s", k |-> k, v |-> v])]

HandlePts(cc, i, via) ==
  LET r == BoxHandle(cc.pts, [s |-> CPos(i) - 1, e |-> CPos(i), id |-> i])
      c1 == [cc EXCEPT !.pts = r.b]
      ids == SelectSeq(Ids(r.acc), LAMBDA x : Deliverable(log[x])) IN
  IF r.acc = <<>> THEN c1 ELSE SetStor(IF ids = <<>> THEN c1 ELSE Dispatch(c1, ids, via), "pts", r.st)

HandleQts(cc, i, via) ==
  LET r == BoxHandle(cc.qts, [s |-> QPos(i) - 1, e |-> QPos(i), id |-> i])
      c1 == [cc EXCEPT !.qts = r.b] IN
  IF r.acc = <<>> THEN c1 ELSE SetStor(Dispatch(c1, Ids(r.acc), via), "qts", r.st)

\* internalState.handleChannel: first sight creates the channel state at pts-count
HandleChannel(cc, i) ==
  IF cc.tracked THEN [cc EXCEPT !.chq = Append(@, i)]
  ELSE LET found == cc.stor.ch # -1
           lp == IF found THEN cc.stor.ch ELSE (IF IsCR(log[i]) THEN ChPos(i) ELSE ChPos(i) - 1)
           c1 == IF found THEN cc ELSE SetStor(cc, "ch", lp)
       IN [c1 EXCEPT !.tracked = TRUE, !.chSub = TRUE, !.ch = NewBox(lp), !.chq = Append(@, i)]

\* applyCombined handles updates sorted: common pts, then qts, then channel
TypeRank(k) == IF IsC(k) THEN 1 ELSE IF IsQ(k) THEN 2 ELSE 3    \* CM, CO, CR: channel
SortIds(ids) == SelectSeq(ids, LAMBDA i : TypeRank(log[i]) = 1) \o SelectSeq(ids, LAMBDA i : TypeRank(log[i]) = 2)
                \o SelectSeq(ids, LAMBDA i : TypeRank(log[i]) = 3)

RECURSIVE FoldUpd(_, _, _, _)
FoldUpd(cc, ids, k, via) ==
  IF k > Len(ids) THEN cc
  ELSE LET i == ids[k] IN
       FoldUpd(IF IsC(log[i]) THEN HandlePts(cc, i, via)
               ELSE IF IsQ(log[i]) THEN HandleQts(cc, i, via)
               ELSE HandleChannel(cc, i), ids, k + 1, via)

ApplyCombined(cc, ids, sq, via) ==
  LET c1 == FoldUpd(cc, SortIds(ids), 1, via) IN
  IF sq > 0 THEN [SetStor(c1, "seq", sq) EXCEPT !.seq.st = sq] ELSE c1

RECURSIVE ApplySeqBatch(_, _, _, _)
ApplySeqBatch(cc, batch, k, via) ==
  IF k > Len(batch) THEN cc
  ELSE ApplySeqBatch(ApplyCombined(cc, <<batch[k].id>>, batch[k].e, via), batch, k + 1, via)

\* handleUpdates(tg.Updates{ids, seq})
HandleUpdates(cc, ids, sq, via) ==
  IF sq = 0 THEN ApplyCombined(cc, ids, 0, via)
  ELSE LET r == BoxHandle(cc.seq, [s |-> sq - 1, e |-> sq, id |-> ids[1]]) IN
       IF r.acc = <<>> THEN [cc EXCEPT !.seq = r.b]
       ELSE LET c1 == ApplySeqBatch([cc EXCEPT !.seq.gaps = r.b.gaps, !.seq.pend = r.b.pend], r.acc, 1, via)
            IN [SetStor(c1, "seq", r.st) EXCEPT !.seq.st = r.st]

\* ------------------------------------------------------------ differences
RECURSIVE GetDifference(_, _)
GetDifference(cc, fuel) ==
  LET c0 == [cc EXCEPT !.pts.gaps = <<>>, !.qts.gaps = <<>>, !.seq.gaps = <<>>]
      rp == c0.pts.st
      rq == c0.qts.st
      P == SelectSeq([k \in 1..produced |-> k],
                     LAMBDA i : (IsC(log[i]) /\ CPos(i) > rp) \/ (IsQ(log[i]) /\ QPos(i) > rq))
      Pc == SelectSeq(P, LAMBDA i : IsC(log[i]))
  IN
  IF P = <<>> THEN
       LET sq == SeqNo(produced)
           c1 == [c0 EXCEPT !.evs = Append(@, [t |-> "diff", k |-> "c", pts |-> rp, qts |-> rq, empty |-> TRUE])]
       IN [SetStor(c1, "seq", sq) EXCEPT !.seq.st = sq]
  ELSE IF TooLongAt > 0 /\ Len(Pc) >= TooLongAt /\ fuel > 0 THEN
       \* updates.differenceTooLong: the pts to restart from; the gap is reported through the callback.
       \* ReportFirst: the repaired code reports before it persists (C03 at the crash point in between)
       LET np == CPos(produced)
           c1 == [c0 EXCEPT !.evs = Append(@, [t |-> "diff", k |-> "c", pts |-> np, qts |-> rq, empty |-> FALSE])]
           rep(x) == [x EXCEPT !.evs = Append(@, [t |-> "tl", k |-> "c"])]
           c2 == IF Fixed THEN [SetStor(rep(c1), "pts", np) EXCEPT !.pts.st = np]
                 ELSE rep([SetStor(c1, "pts", np) EXCEPT !.pts.st = np])
       IN GetDifference(c2, fuel - 1)
  ELSE
       LET S == IF SliceLim = 0 \/ Len(P) <= SliceLim THEN P ELSE SubSeq(P, 1, SliceLim)
           final == Len(S) = Len(P)
           x == IF final THEN produced ELSE S[Len(S)]
           np == Mx(rp, CPos(x))
           nq == Mx(rq, QPos(x))
           ns == SeqNo(x)
           oth == SelectSeq(S, LAMBDA i : log[i] \in {"O", "Q"})
           msgs == SelectSeq(S, LAMBDA i : log[i] \in {"M", "E"})
           c1 == [c0 EXCEPT !.evs = Append(@, [t |-> "diff", k |-> "c", pts |-> np, qts |-> nq, empty |-> FALSE])]
           ms == SelectSeq(msgs, LAMBDA i : log[i] = "M") \o SelectSeq(msgs, LAMBDA i : log[i] = "E")
           c2 == IF oth = <<>> \/ Fixed THEN c1 ELSE ApplyCombined(c1, oth, 0, "diff")
           c3 == IF Fixed THEN (IF ms \o oth = <<>> THEN c2 ELSE Dispatch(c2, ms \o SortIds(oth), "diff"))
                 ELSE IF msgs = <<>> THEN c2 ELSE Dispatch(c2, ms, "diff")
           c4 == [c3 EXCEPT !.stor.pts = np, !.stor.qts = nq, !.stor.seq = ns,
                            !.evs = Append(@, [t |-> "ss", pts |-> np, qts |-> nq, seq |-> ns]),
                            !.pts.st = np, !.qts.st = nq, !.seq.st = ns]
       IN IF final \/ fuel = 0 THEN c4 ELSE GetDifference(c4, fuel - 1)

RECURSIVE ChanDifference(_, _)
ChanDifference(cc, fuel) ==
  LET c0 == [cc EXCEPT !.ch.gaps = <<>>, !.chSub = FALSE]
      rp == c0.ch.st
      P == SelectSeq([k \in 1..produced |-> k], LAMBDA i : (IsCh(log[i]) \/ IsCR(log[i])) /\ ChPos(i) > rp)
  IN
  IF P = <<>> THEN
       LET c1 == [c0 EXCEPT !.evs = Append(@, [t |-> "diff", k |-> "ch", pts |-> rp, qts |-> 0, empty |-> TRUE])]
       IN SetStor(c1, "ch", rp)
  ELSE IF ChanTooLongAt > 0 /\ Len(P) >= ChanTooLongAt THEN
       \* updates.channelDifferenceTooLong: dialog pts to restart from, reported through the callback
       LET np == ChPos(produced)
           c1 == [c0 EXCEPT !.evs = Append(@, [t |-> "diff", k |-> "ch", pts |-> np, qts |-> 0, empty |-> FALSE])]
           rep(x) == [x EXCEPT !.evs = Append(@, [t |-> "tl", k |-> "ch"])]
       IN IF Fixed THEN [SetStor(rep(c1), "ch", np) EXCEPT !.ch.st = np]
          ELSE rep([SetStor(c1, "ch", np) EXCEPT !.ch.st = np])
  ELSE
       LET S == IF ChanLim = 0 \/ Len(P) <= ChanLim THEN P ELSE SubSeq(P, 1, ChanLim)
           final == Len(S) = Len(P)
           np == ChPos(S[Len(S)])
           oth == SelectSeq(S, LAMBDA i : log[i] \in {"CO", "CR"})
           msgs == SelectSeq(S, LAMBDA i : log[i] = "CM")
           crs == {S[j] : j \in {x \in 1..Len(S) : log[S[x]] = "CR"}}
           c1 == [c0 EXCEPT !.evs = Append(@, [t |-> "diff", k |-> "ch", pts |-> np, qts |-> 0, empty |-> FALSE, cr |-> crs])]
           c2 == IF oth = <<>> \/ Fixed THEN c1 ELSE [c1 EXCEPT !.iq = Append(@, oth)]
           c3 == IF Fixed THEN Dispatch(c2, msgs \o oth, "diff")
                 ELSE IF msgs = <<>> THEN c2 ELSE Dispatch(c2, msgs, "diff")
           c4 == [SetStor(c3, "ch", np) EXCEPT !.ch.st = np]
       IN IF final \/ fuel = 0 THEN c4 ELSE ChanDifference(c4, fuel - 1)

\* queue items: i > 0 a channel update (log index); -1 an updateChannelTooLong without pts; -(2 + p) one with pts p
ChanTooLong(cc, item) ==
  LET c1 == [cc EXCEPT !.chq = Tail(@)] IN
  IF item = -1 THEN ChanDifference(c1, 8)
  ELSE LET p == (0 - item) - 2 IN
       IF DiffLimit > 0 /\ p - c1.ch.st > DiffLimit THEN [c1 EXCEPT !.evs = Append(@, [t |-> "tl", k |-> "ch"])]
       ELSE ChanDifference(c1, 8)

ChanStep(cc) ==
  IF Head(cc.chq) < 0 THEN ChanTooLong(cc, Head(cc.chq)) ELSE
  LET i == Head(cc.chq)
      r == BoxHandle(cc.ch, [s |-> IF IsCR(log[i]) THEN ChPos(i) ELSE ChPos(i) - 1, e |-> ChPos(i), id |-> i])
      c1 == [cc EXCEPT !.ch = r.b, !.chq = Tail(@)] IN
  IF r.acc = <<>> THEN c1 ELSE SetStor(Dispatch(c1, Ids(r.acc), "push"), "ch", r.st)

MainInternal(cc) == HandleUpdates([cc EXCEPT !.iq = Tail(@)], Head(cc.iq), 0, "push")

\* the quiescing recovery the driver runs: common difference, then drain queues and
\* channel difference until nothing is queued
RECURSIVE DrainI(_)
DrainI(cc) == IF cc.iq = <<>> THEN cc ELSE DrainI(MainInternal(cc))
RECURSIVE DrainC(_)
DrainC(cc) == IF cc.chq = <<>> THEN cc ELSE DrainC(ChanStep(cc))
ChanRound(cc) ==
  LET c1 == DrainI(cc) IN
  IF ~c1.tracked THEN c1
  ELSE LET c2 == IF c1.chSub THEN ChanDifference(c1, 8) ELSE c1
           c3 == DrainC(c2)
       IN ChanDifference(c3, 8)
FullRecover(cc) == ChanRound(ChanRound(ChanRound(GetDifference(cc, 8))))

Restart(cc) ==
  LET tr == cc.stor.ch # -1
      c1 == [pts |-> NewBox(cc.stor.pts), qts |-> NewBox(cc.stor.qts), seq |-> NewBox(cc.stor.seq),
             ch |-> NewBox(IF tr THEN cc.stor.ch ELSE 0), tracked |-> tr, chSub |-> tr,
             chq |-> <<>>, iq |-> <<>>, stor |-> cc.stor, evs |-> <<>>]
  IN GetDifference(c1, 8)

\* ------------------------------------------------------------ observable effects of an event list
\* state of the observer: handled-this-run, handled-ever, too-long flags, channel base, cover, stor
Obs0(cc) == [hr |-> handledRun, he |-> handledEver, tl |-> tl, cb |-> chBase, cov |-> cover, stor |-> c.stor, bad |-> bad, off |-> offered]

Covered(o, i) ==
  IF IsC(log[i]) THEN CPos(i) <= o.cov.pts \/ o.tl.c
  ELSE IF IsQ(log[i]) THEN QPos(i) <= o.cov.qts \/ o.tl.c
  ELSE ChPos(i) <= o.cov.ch \/ ChPos(i) <= o.cb \/ o.tl.ch
SameSeq(i, j) == (IsC(log[i]) /\ IsC(log[j])) \/ (IsQ(log[i]) /\ IsQ(log[j])) \/ (IsCh(log[i]) /\ IsCh(log[j]))   \* CR is in none

\* C03: nothing the storage covers is undelivered
PersistOK(o) ==
  \A i \in 1..Len(log) :
     /\ (IsC(log[i]) /\ Deliverable(log[i]) /\ CPos(i) <= o.stor.pts) => (i \in o.he \/ o.tl.c)
     /\ (IsQ(log[i]) /\ QPos(i) <= o.stor.qts) => (i \in o.he \/ o.tl.c)
     /\ (IsCh(log[i]) /\ o.stor.ch # -1 /\ ChPos(i) <= o.stor.ch /\ ChPos(i) > o.cb) => (i \in o.he \/ o.tl.ch)

ApplyEv(o, e) ==
  IF e.t = "h" THEN
      LET ids == {e.ids[k] : k \in 1..Len(e.ids)}
          dup == \E i \in ids : i \in o.hr /\ ~IsCR(log[i])
          ooo == e.via = "push" /\ \E i \in ids : ~IsCR(log[i]) /\ \E j \in 1..(i - 1) :
                    SameSeq(i, j) /\ Deliverable(log[j]) /\ j \notin (o.hr \cup ids) /\ ~Covered(o, j)
      IN [o EXCEPT !.hr = @ \cup ids, !.he = @ \cup ids,
                   !.bad = IF dup THEN @ \cup {"dup"} ELSE IF ooo THEN @ \cup {"order"} ELSE @]
  ELSE IF e.t = "s" THEN
      LET o1 == [o EXCEPT !.stor[e.k] = e.v,
                          !.cb = IF e.k = "ch" /\ o.stor.ch = -1 THEN e.v ELSE @] IN
      [o1 EXCEPT !.bad = IF PersistOK(o1) THEN @ ELSE @ \cup {"persist"}]
  ELSE IF e.t = "ss" THEN
      LET o1 == [o EXCEPT !.stor.pts = e.pts, !.stor.qts = e.qts, !.stor.seq = e.seq] IN
      [o1 EXCEPT !.bad = IF PersistOK(o1) THEN @ ELSE @ \cup {"persist"}]
  ELSE IF e.t = "diff" THEN
      IF e.k = "c" THEN [o EXCEPT !.cov.pts = Mx(@, e.pts), !.cov.qts = Mx(@, e.qts)]
      ELSE [o EXCEPT !.cov.ch = Mx(@, e.pts), !.off = @ \cup (IF "cr" \in DOMAIN e THEN e.cr ELSE {})]
  ELSE IF e.t = "tl" THEN [o EXCEPT !.tl[e.k] = TRUE]
  ELSE o

RECURSIVE ApplyEvs(_, _, _, _)
ApplyEvs(o, evs, k, n) == IF k > n THEN o ELSE ApplyEvs(ApplyEv(o, evs[k]), evs, k + 1, n)

\* commit a body result: all of its events happened
Commit(c2, a) ==
  LET o == ApplyEvs(Obs0(c), c2.evs, 1, Len(c2.evs)) IN
  /\ c' = [c2 EXCEPT !.evs = <<>>]
  /\ handledRun' = o.hr /\ handledEver' = o.he /\ tl' = o.tl /\ chBase' = o.cb /\ cover' = o.cov /\ bad' = o.bad
  /\ offered' = o.off /\ UNCHANGED cancelled
  /\ act' = [a EXCEPT !.post = [pts |-> c2.pts, qts |-> c2.qts, seq |-> c2.seq, ch |-> c2.ch, tracked |-> c2.tracked,
                                chq |-> Len(c2.chq), iq |-> Len(c2.iq), stor |-> c2.stor],
                      !.nev = Len(c2.evs)]
  /\ hist' = Append(hist, act')

\* a crash after the first k events of a body, then restart from storage + startup difference
CrashCommit(c2, k, a) ==
  LET o == ApplyEvs(Obs0(c), c2.evs, 1, k)
      o1 == [o EXCEPT !.hr = {}, !.cov = [pts |-> o.stor.pts, qts |-> o.stor.qts, ch |-> IF o.stor.ch = -1 THEN 0 ELSE o.stor.ch]]
      cr == Restart([c2 EXCEPT !.stor = o.stor])
      o2 == ApplyEvs(o1, cr.evs, 1, Len(cr.evs))
  IN
  /\ c' = [cr EXCEPT !.evs = <<>>]
  /\ handledRun' = o2.hr /\ handledEver' = o2.he /\ tl' = o2.tl /\ chBase' = o2.cb /\ cover' = o2.cov /\ bad' = o2.bad
  /\ offered' = o2.off /\ cancelled' = FALSE
  /\ act' = [a EXCEPT !.crash = k,
                      !.post = [pts |-> cr.pts, qts |-> cr.qts, seq |-> cr.seq, ch |-> cr.ch, tracked |-> cr.tracked,
                                chq |-> 0, iq |-> 0, stor |-> cr.stor],
                      !.nev = Len(cr.evs)]
  /\ hist' = Append(hist, act')

A(name, i, ws) == [a |-> name, i |-> i, ws |-> ws, crash |-> -1, post |-> <<>>, nev |-> 0]

BodyQ(c2, a, q) ==
  \/ /\ Commit(c2, a) /\ UNCHANGED ncrash /\ quiesced' = q
  \/ /\ ncrash < MaxCrash /\ quiesced' = FALSE
     /\ \E k \in 0..(Len(c2.evs) - 1) : CrashCommit(c2, k, a)
     /\ ncrash' = ncrash + 1
Body(c2, a) == BodyQ(c2, a, FALSE)

\* ------------------------------------------------------------ actions
Produce ==
  /\ produced < Len(log)
  /\ produced' = produced + 1
  /\ act' = A("produce", produced + 1, FALSE) /\ hist' = Append(hist, act')
  /\ quiesced' = FALSE
  /\ UNCHANGED <<log, c, handledRun, handledEver, tl, chBase, cover, npush, ncrash, bad, offered, cancelled>>

Push(i, ws) ==
  /\ npush < MaxPush /\ i <= produced /\ log[i] # "A"
  /\ (cancelled => ~IsCh(log[i]) /\ ~IsCR(log[i]))
  /\ ws => (UseSeq /\ ~IsCh(log[i]) /\ ~IsCR(log[i]))
  /\ Len(c.chq) < 8 /\ Len(c.iq) < 8
  /\ npush' = npush + 1
  /\ Body(HandleUpdates(c, <<i>>, IF ws THEN SeqNo(i) ELSE 0, "push"), A("push", i, ws))
  /\ UNCHANGED <<log, produced>>

\* two updates in one envelope (seq 0)
Push2(i, j) ==
  /\ npush < MaxPush /\ i < j /\ j <= produced /\ log[i] # "A" /\ log[j] # "A" /\ ~cancelled
  /\ Len(c.chq) < 7 /\ Len(c.iq) < 8
  /\ npush' = npush + 1
  /\ Body(HandleUpdates(c, <<i, j>>, 0, "push"), A("push2", i, FALSE) @@ [j |-> j])
  /\ UNCHANGED <<log, produced>>

\* a pts increment reported by an own request (Manager.HandleAffected): only for entries of kind "A"
PushAffected(i) ==
  /\ npush < MaxPush /\ i <= produced /\ log[i] = "A"
  /\ npush' = npush + 1
  /\ Body(HandlePts(c, i, "push"), A("affected", i, FALSE))
  /\ UNCHANGED <<log, produced>>

\* updateChannelTooLong pushed for the tracked channel, with or without the server's current pts
PushChanTooLong(wp) ==
  /\ ChanTLPush /\ ~cancelled /\ npush < MaxPush /\ Len(c.chq) < 8
  /\ npush' = npush + 1
  /\ Body(IF c.tracked THEN [c EXCEPT !.chq = Append(@, IF wp THEN 0 - (2 + ChPos(produced)) ELSE -1)] ELSE c,
          A("chantl", ChPos(produced), wp))
  /\ UNCHANGED <<log, produced>>

\* gap timeout / idle timeout / updatesTooLong: common difference
Recover ==
  /\ Body(GetDifference(c, 8), A("recover", 0, FALSE))
  /\ UNCHANGED <<log, produced, npush>>

ChanSub ==
  /\ c.tracked /\ c.chSub /\ Len(c.iq) < 8
  /\ Body(ChanDifference(c, 8), A("chansub", 0, FALSE))
  /\ UNCHANGED <<log, produced, npush>>

ChanRecover ==
  /\ c.tracked /\ ~c.chSub /\ Len(c.iq) < 8
  /\ Body(ChanDifference(c, 8), A("chandiff", 0, FALSE))
  /\ UNCHANGED <<log, produced, npush>>

ChanStepA ==
  /\ c.tracked /\ ~c.chSub /\ c.chq # <<>>
  /\ Body(ChanStep(c), A("chanstep", 0, FALSE))
  /\ UNCHANGED <<log, produced, npush>>

Internal ==
  /\ c.iq # <<>> /\ Len(c.chq) < 7
  /\ Body(MainInternal(c), A("internal", 0, FALSE))
  /\ UNCHANGED <<log, produced, npush>>

Quiesce ==
  /\ ~quiesced
  /\ BodyQ(FullRecover(c), A("quiesce", 0, FALSE), TRUE)
  /\ UNCHANGED <<log, produced, npush>>

\* shutdown: the manager context is cancelled; bodies already queued may still run; then the process exits and is
\* restarted from storage.  Nothing in a body depends on the context, so the events are the same.
Cancel ==
  /\ ~cancelled /\ ncrash < MaxCrash
  /\ cancelled' = TRUE
  /\ act' = A("cancel", 0, FALSE) /\ hist' = Append(hist, act') /\ quiesced' = FALSE
  /\ UNCHANGED <<log, produced, c, handledRun, handledEver, tl, chBase, cover, npush, ncrash, bad, offered>>
RestartA ==
  /\ cancelled
  /\ CrashCommit([c EXCEPT !.evs = <<>>], 0, A("restart", 0, FALSE))
  /\ ncrash' = ncrash + 1 /\ quiesced' = FALSE
  /\ UNCHANGED <<log, produced, npush>>

Logs == UNION {[1..n -> Kinds] : n \in 1..MaxLog}

Init ==
  /\ log \in Logs
  /\ \A i \in 1..Len(log) : IsCR(log[i]) => ChPosL(log, i) >= 1     \* no server sends a channel pts of 0
  /\ offered = {} /\ cancelled = FALSE
  /\ produced = 0
  /\ c = [pts |-> NewBox(0), qts |-> NewBox(0), seq |-> NewBox(0), ch |-> NewBox(0),
          tracked |-> Tracked0, chSub |-> Tracked0, chq |-> <<>>, iq |-> <<>>,
          stor |-> [pts |-> 0, qts |-> 0, seq |-> 0, ch |-> IF Tracked0 THEN 0 ELSE -1], evs |-> <<>>]
  /\ handledRun = {} /\ handledEver = {}
  /\ tl = [c |-> FALSE, ch |-> FALSE]
  /\ chBase = 0
  /\ cover = [pts |-> 0, qts |-> 0, ch |-> 0]
  /\ npush = 0 /\ ncrash = 0 /\ quiesced = FALSE /\ bad = {}
  /\ act = A("init", 0, FALSE) /\ hist = <<>>

Next ==
  \/ \E i \in 1..MaxLog : PushAffected(i)
  \/ (\E wp \in BOOLEAN : PushChanTooLong(wp))
  \/ Produce
  \/ \E i \in 1..MaxLog : \E ws \in BOOLEAN : Push(i, ws)
  \/ (~cancelled /\ (Recover \/ ChanSub \/ ChanRecover \/ ChanStepA \/ Internal \/ Quiesce))
  \/ Cancel \/ RestartA

NextPairs == Next \/ \E i, j \in 1..MaxLog : Push2(i, j)

Spec == Init /\ [][Next]_vars

\* ------------------------------------------------------------ properties
\* C03 (every prefix of every body, hence every crash point) and C01 manager level are
\* accumulated in `bad` by ApplyEv
PersistBehind == "persist" \notin bad
AtMostOnce == "dup" \notin bad
InOrder == "order" \notin bad
\* C02: after a completed recovery nothing produced is missing
NoLoss ==
  quiesced => \A i \in 1..produced :
     \/ i \in handledEver \/ ~Deliverable(log[i])
     \/ (IsCR(log[i]) /\ i \notin offered)
     \/ (IsCh(log[i]) /\ (~c.tracked \/ ChPos(i) <= chBase \/ tl.ch))
     \/ (~IsCh(log[i]) /\ tl.c)
\* after a completed recovery the client is level with the server
Level ==
  quiesced => /\ c.pts.st = CPos(produced) /\ c.qts.st = QPos(produced)
              /\ (c.tracked => c.ch.st >= ChPos(produced) \/ ChPos(produced) <= chBase)
              /\ c.iq = <<>> /\ c.chq = <<>>

Beh == [log |-> log, tracked0 |-> Tracked0, slice |-> SliceLim, chanlim |-> ChanLim, useseq |-> UseSeq,
        toolong |-> TooLongAt, chantoolong |-> ChanTooLongAt, difflimit |-> DiffLimit, hist |-> hist]
Dump == (Len(hist) = SimDepth) => PrintT(ToJson(Beh))
\* exhaustive runs: one behaviour per distinct quiesced state (a state cover of the completed recoveries)
DumpQ == quiesced => PrintT(ToJson(Beh))
=============================================================================
