CONSTANTS Kinds = {"M","O","Q","E","CM","CO"} MaxLog = 5 MaxPush = 6 SliceLim = 2 ChanLim = 1 UseSeq = TRUE Tracked0 = FALSE MaxCrash = 1 Fixed = TRUE SimDepth = 14
INIT Init
NEXT NextPairs
VIEW View
INVARIANTS PersistBehind AtMostOnce InOrder NoLoss Level
CONSTRAINT Dump
CHECK_DEADLOCK FALSE
