CONSTANTS Kinds = {"M","O","Q","E","CM","CO"} MaxLog = 5 MaxPush = 6 SliceLim = 2 ChanLim = 1 UseSeq = TRUE Tracked0 = FALSE MaxCrash = 1 Fixed = TRUE TooLongAt = 0 ChanTooLongAt = 0 DiffLimit = 0 ChanTLPush = FALSE SimDepth = 14
INIT Init
NEXT NextPairs
VIEW View
INVARIANTS PersistBehind AtMostOnce InOrder NoLoss Level
CONSTRAINT Dump
CHECK_DEADLOCK FALSE
