CONSTANTS Kinds = {"M","O","Q","E","CM","CO"} MaxLog = 6 MaxPush = 7 SliceLim = 0 ChanLim = 0 UseSeq = FALSE Tracked0 = TRUE MaxCrash = 1 Fixed = TRUE TooLongAt = 0 ChanTooLongAt = 0 DiffLimit = 0 ChanTLPush = FALSE SimDepth = 16
INIT Init
NEXT NextPairs
VIEW View
INVARIANTS PersistBehind AtMostOnce InOrder NoLoss Level
CONSTRAINT Dump
CHECK_DEADLOCK FALSE
