CONSTANTS Kinds = {"M","O","Q","CM","CO"} MaxLog = 3 MaxPush = 3 SliceLim = 1 ChanLim = 1 UseSeq = TRUE Tracked0 = FALSE MaxCrash = 1 Fixed = TRUE TooLongAt = 0 ChanTooLongAt = 0 DiffLimit = 0 ChanTLPush = FALSE SimDepth = 99
INIT Init
NEXT NextPairs
VIEW View
INVARIANTS PersistBehind AtMostOnce InOrder NoLoss Level
CONSTRAINT DumpQ
CHECK_DEADLOCK FALSE
