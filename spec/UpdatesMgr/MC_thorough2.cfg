CONSTANTS Kinds = {"M","O","E","CM","CO"} MaxLog = 4 MaxPush = 2 SliceLim = 2 ChanLim = 0 UseSeq = FALSE Tracked0 = TRUE MaxCrash = 1 Fixed = TRUE TooLongAt = 0 ChanTooLongAt = 0 DiffLimit = 0 ChanTLPush = FALSE SimDepth = 99
INIT Init
NEXT Next
VIEW View
INVARIANTS PersistBehind AtMostOnce InOrder NoLoss Level

CHECK_DEADLOCK FALSE
