CONSTANT Check = "C41"
SPECIFICATION Spec
CONSTRAINT Mark
POSTCONDITION Accepted
CHECK_DEADLOCK FALSE
