----------------------------- MODULE ConnProp -----------------------------
(* Property-level trace judge for the connection-level checks.  The trace is  *)
(* what harness/cmd/conndrv recorded on a real mtproto.Conn: driver steps      *)
(* (ping / invoke / cancel / tick / srv / waited / end), frames the client     *)
(* wrote (sent), completions (pingdone / done), handler calls, end of Run.     *)
(*   Check = "C43": a ping succeeds only after a pong carrying its own id was  *)
(*                  delivered, otherwise it returns when its context ends; a   *)
(*                  keep-alive ping without its pong within the timeout ends   *)
(*                  the connection, and only that does                         *)
(*   Check = "C41": the salt of every written frame is the last salt told by   *)
(*                  the server or a stored future salt valid beyond now+300 s  *)
(*                  (or, when none is, the salt already in use); a request     *)
(*                  answered with bad_server_salt is re-sent exactly once,     *)
(*                  with the new salt and the same msg id                      *)
(*   Check = "C23": a request completes only with an outcome carried by a      *)
(*                  message naming its msg id (however nested), completes when *)
(*                  such a message is delivered, updates reach OnMessage       *)
(*   Check = "C08": msg ids of written frames strictly increase, are client    *)
(*                  typed, seqno arithmetic                                    *)
EXTENDS Integers, Sequences, FiniteSets, TLC, Json, IOUtils

CONSTANT Check
Trace == ndJsonDeserialize(IOEnv.TRACE_FILE)
K == 0..9

VARIABLES i, tr, s
vars == <<i, tr, s>>
Ev == Trace[i]
Has(r, f) == f \in DOMAIN r

S0(salt0) == [
  pst |-> [k \in K |-> "none"], ppong |-> [k \in K |-> FALSE], pcancel |-> [k \in K |-> FALSE], pwf |-> [k \in K |-> FALSE],
  loopOut |-> FALSE, ended |-> FALSE, endReq |-> FALSE,
  told |-> {salt0}, stored |-> {}, storedSince |-> {}, now |-> 0, prev |-> salt0, everValid |-> {},
  rst |-> [k \in K |-> "none"], icancel |-> [k \in K |-> FALSE],
  due |-> [k \in K |-> -1], nbad |-> [k \in K |-> 0], resent |-> [k \in K |-> 0],
  accN |-> {}, deliv |-> {}, named |-> {}, must |-> {}, upds |-> {}, allUpds |-> {}, seenUpd |-> {},
  lastId |-> <<0, -1>>, content |-> 0, frames |-> {}]

Init == i = 1 /\ tr = -1 /\ s = S0(0)
Reset == Ev.ev = "reset" /\ tr' = Ev.trace /\ s' = S0(Ev.salt0)

\* ---- effects of a server message, however nested (C23)
RECURSIVE ResEff(_, _)
ResEff(k, b) ==
  IF b.t = "res" THEN {[kind |-> "ok", k |-> k, tag |-> b.tag]}
  ELSE IF b.t = "rpcerr" THEN {[kind |-> "rpc", k |-> k, code |-> b.code, msg |-> b.msg]}
  ELSE IF b.t = "gzip" THEN ResEff(k, b.body)
  ELSE IF b.t = "pong" THEN {}
  ELSE {[kind |-> "garbage", k |-> k]}
RECURSIVE Eff(_)
Eff(m) ==
  IF m.t = "container" THEN UNION {Eff(m.msgs[j]) : j \in 1..Len(m.msgs)}
  ELSE IF m.t = "gzip" THEN Eff(m.body)
  ELSE IF m.t = "result" THEN (IF Has(m, "of") THEN ResEff(m.of, m.body) ELSE {})
  ELSE IF m.t = "update" THEN {[kind |-> "upd", tag |-> m.tag]}
  ELSE IF m.t = "badsalt" THEN (IF Has(m, "of") THEN {[kind |-> "badsalt", k |-> m.of, salt |-> m.salt]} ELSE {})
  ELSE IF m.t = "badmsg" THEN (IF Has(m, "of") THEN {[kind |-> "badmsg", k |-> m.of]} ELSE {})
  ELSE {}
\* no malformed node anywhere in the tree (a malformed sibling may make the library drop the whole container)
RECURSIVE Clean(_)
Clean(m) ==
  IF m.t = "container" THEN \A j \in 1..Len(m.msgs) : Clean(m.msgs[j])
  ELSE IF m.t \in {"gzip", "result"} THEN Clean(m.body)
  ELSE m.t \notin {"raw", "trunc"}
RECURSIVE Pongs(_)
Pongs(m) ==
  IF m.t = "container" THEN UNION {Pongs(m.msgs[j]) : j \in 1..Len(m.msgs)}
  ELSE IF m.t = "gzip" THEN Pongs(m.body)
  ELSE IF m.t = "result" THEN Pongs(m.body)
  ELSE IF m.t = "pong" /\ Has(m, "of") THEN {m.of}
  ELSE {}
RECURSIVE Salts(_)
Salts(m) ==
  IF m.t = "container" THEN UNION {Salts(m.msgs[j]) : j \in 1..Len(m.msgs)}
  ELSE IF m.t = "gzip" THEN Salts(m.body)
  ELSE IF m.t = "salts" THEN {[until |-> s.now + m.list[j][2], salt |-> m.list[j][3]] : j \in 1..Len(m.list)}
  ELSE {}
RECURSIVE Sessions(_)
Sessions(m) ==
  IF m.t = "container" THEN UNION {Sessions(m.msgs[j]) : j \in 1..Len(m.msgs)}
  ELSE IF m.t = "gzip" THEN Sessions(m.body)
  ELSE IF m.t = "session" THEN {m.salt}
  ELSE {}

\* C07: a server message is processed only if its header is acceptable (a replay of a message that was itself
\* dropped is not judged)
HAcc(e) ==
  IF ~Has(e, "hdr") THEN TRUE
  ELSE LET h == e.hdr IN
       /\ ~Has(h, "session") /\ ~Has(h, "key")
       /\ (Has(h, "idtype") => h.idtype \in {1, 3})
       /\ (Has(h, "offset") => (h.offset >= -300 /\ h.offset <= 30))
       /\ (Has(h, "padn") => (h.padn >= 12 /\ h.padn <= 1024 /\ ~h.unaligned))
       /\ (Has(h, "replay") => h.replay \notin s.accN)

\* whatever the driver does next, everything that had to complete has completed (the driver waits for quiescence)
Settled ==
  /\ (Check = "C23") => \A k \in s.must : s.rst[k] = "done"
  /\ (Check = "C43") => \A k \in K : (s.pst[k] = "sent" /\ s.ppong[k] /\ ~s.pwf[k]) => FALSE
  /\ (Check = "C41") => \A k \in K : (s.rst[k] = "sent" /\ s.due[k] # -1) => FALSE

\* C08: a message's seqno is twice the number of content messages with a smaller id, plus one for a content message
IdLess(a, b) == a[1] < b[1] \/ (a[1] = b[1] /\ a[2] < b[2])
IdSeqOK == \A f \in s.frames :
   f.seq = 2 * Cardinality({g \in s.frames : g.content /\ IdLess(g.id, f.id)}) + (IF f.content THEN 1 ELSE 0)

Step ==
  \/ /\ Ev.ev = "ping" /\ Settled
     \* wfail: the driver's transport will report this write as failed after the bytes have left
     /\ s' = [s EXCEPT !.pst[Ev.k] = "started", !.pwf[Ev.k] = Has(Ev, "wfail") /\ Ev.wfail]
  \/ /\ Ev.ev = "invoke" /\ Settled
     /\ s' = [s EXCEPT !.rst[Ev.k] = "started"]
  \/ /\ Ev.ev = "cancel" /\ Settled
     /\ s' = IF Ev.who = "p" THEN [s EXCEPT !.pcancel[Ev.k] = TRUE] ELSE [s EXCEPT !.icancel[Ev.k] = TRUE]
  \/ /\ Ev.ev = "tick" /\ Settled
     /\ s' = [s EXCEPT !.now = @ + (Ev.ms \div 1000),
                        !.everValid = @ \cup {f.salt : f \in {g \in s.stored : g.until > s.now + (Ev.ms \div 1000) + 300}}]
  \/ /\ Ev.ev = "end" /\ Settled
     /\ s' = [s EXCEPT !.endReq = TRUE]
  \/ /\ Ev.ev = "waited" /\ Settled
     /\ (Check = "C43") => (s.loopOut => s.ended)
     /\ s' = s
  \/ /\ Ev.ev = "srv" /\ Settled
     /\ LET m == Ev.msg
            live == HAcc(Ev) /\ ~s.ended     \* nothing is processed once Run has returned
            eff == IF live THEN Eff(m) ELSE {}
            pg == IF live THEN Pongs(m) ELSE {}
            ses == IF live THEN Sessions(m) ELSE {}
            newSalts == IF live THEN Salts(m) ELSE {}
            bs == {e \in eff : e.kind = "badsalt"}
            decisive == {e.k : e \in {x \in eff : x.kind \in {"ok", "rpc", "badmsg"}}}
            firstBad == {e \in bs : s.rst[e.k] = "sent" /\ s.nbad[e.k] = 0}
            secondBad == {e \in bs : s.rst[e.k] = "sent" /\ s.nbad[e.k] > 0}
        IN s' = [s EXCEPT
             !.ppong = [k \in K |-> @[k] \/ (k \in pg /\ s.pst[k] = "sent")],
             !.loopOut = IF 0 \in pg THEN FALSE ELSE @,
             !.stored = @ \cup newSalts,
             \* Invoke answers bad_server_salt for its pending request by discarding the saved future salts (salts.Reset)
             \* before it adopts the salt the server named: what was stored before may be gone
             !.storedSince = IF firstBad # {} \/ secondBad # {} THEN newSalts ELSE @ \cup newSalts,
             !.accN = IF live /\ Has(Ev, "n") THEN @ \cup {Ev.n} ELSE @,
             !.everValid = @ \cup {f.salt : f \in {g \in (s.stored \cup newSalts) : g.until > s.now + 300}},
             !.told = IF ses # {} THEN ses ELSE (IF bs # {} THEN (IF firstBad # {} THEN {e.salt : e \in firstBad} ELSE @ \cup {e.salt : e \in bs}) ELSE @),
             !.due = [k \in K |-> IF \E e \in firstBad : e.k = k THEN (CHOOSE e \in firstBad : e.k = k).salt ELSE @[k]],
             !.nbad = [k \in K |-> IF \E e \in bs : e.k = k /\ s.rst[k] = "sent" THEN @[k] + 1 ELSE @[k]],
             !.deliv = @ \cup eff,
             !.named = @ \cup {e.k : e \in {x \in eff : x.kind # "upd"}},
             \* (a request whose caller has given up is busy asking the server to drop the answer: it need not complete now)
             !.must = @ \cup (IF Clean(m) THEN {k \in decisive : s.rst[k] = "sent" /\ ~s.icancel[k]} ELSE {})
                        \cup {e.k : e \in {x \in secondBad : ~s.icancel[x.k]}},
             !.allUpds = @ \cup {e.tag : e \in {x \in eff : x.kind = "upd"}},
             !.upds = @ \cup (IF Clean(m) THEN {e.tag : e \in {x \in eff : x.kind = "upd"}} ELSE {})]
  \/ /\ Ev.ev = "sent"
     /\ LET valid == {f \in s.stored : f.until > Ev.now + 300}
            idp == <<Ev.idsec, Ev.idfrac>>
            bigger == idp[1] > s.lastId[1] \/ (idp[1] = s.lastId[1] /\ idp[2] > s.lastId[2])
            isreq == Ev.type = "req"
            resend == isreq /\ ~Ev.first
        IN
        /\ (Check = "C41") =>
              /\ \/ Ev.salt \in s.told
                 \/ Ev.salt \in {f.salt : f \in valid}
                 \/ ({f \in s.storedSince : f.until > Ev.now + 300} = {} /\ Ev.salt \in (s.everValid \cup {s.prev}))
              /\ resend => /\ s.due[Ev.k] # -1 /\ Ev.salt = s.due[Ev.k] /\ Ev.sameid /\ s.resent[Ev.k] = 0
        \* frames are observed in the order they were WRITTEN; ids and sequence numbers are assigned earlier,
        \* in one critical section, and concurrent senders may reach the wire in either order.  So uniqueness
        \* is checked here and the sequence-number arithmetic in id order at the end of the case (IdSeqOK).
        /\ (Check = "C08") =>
              /\ Ev.idlow = 0
              /\ resend \/ \A f \in s.frames : f.id # idp
        /\ s' = [s EXCEPT
             !.prev = Ev.salt,
             !.pst = IF Ev.type = "ping" /\ Has(Ev, "k") THEN [@ EXCEPT ![Ev.k] = "sent"] ELSE @,
             !.loopOut = IF Ev.type = "loopping" THEN TRUE ELSE @,
             !.rst = IF isreq /\ Ev.first THEN [@ EXCEPT ![Ev.k] = "sent"] ELSE @,
             !.due = IF resend THEN [@ EXCEPT ![Ev.k] = -1] ELSE @,
             !.resent = IF resend THEN [@ EXCEPT ![Ev.k] = @ + 1] ELSE @,
             !.lastId = IF resend THEN @ ELSE idp,
             !.frames = IF resend THEN @ ELSE @ \cup {[id |-> idp, seq |-> Ev.seqno, content |-> Ev.type \in {"req", "drop"}]},
             !.content = IF Ev.type \in {"req", "drop"} /\ ~resend THEN @ + 1 ELSE @]
  \/ /\ Ev.ev = "pingdone"
     /\ (Check = "C43") =>
           \/ Ev.res = "ok" /\ s.ppong[Ev.k]
           \/ Ev.res = "ctx" /\ s.pcancel[Ev.k] /\ ~s.ppong[Ev.k]
           \/ Ev.res \notin {"ok", "ctx"} /\ (s.ended \/ s.endReq)
           \/ Ev.res = "wfail" /\ s.pwf[Ev.k]
     /\ s' = [s EXCEPT !.pst[Ev.k] = "done"]
  \/ /\ Ev.ev = "done"
     /\ (Check \in {"C23", "C07"}) =>
           \/ Ev.res = "ok" /\ Len(Ev.tags) = 1 /\ [kind |-> "ok", k |-> Ev.k, tag |-> Ev.tags[1]] \in s.deliv
           \/ Ev.res = "ok" /\ [kind |-> "garbage", k |-> Ev.k] \in s.deliv
           \/ Ev.res = "ctx" /\ (s.icancel[Ev.k] \/ s.endReq)
           \/ Ev.res \in {"closed", "retrylimit"}
           \/ Ev.res = "badmsg" /\ [kind |-> "badmsg", k |-> Ev.k] \in s.deliv
           \/ Ev.res = "badsalt" /\ \E e \in s.deliv : e.kind = "badsalt" /\ e.k = Ev.k
           \/ /\ Ev.res \notin {"ok", "ctx", "closed", "retrylimit", "badmsg", "badsalt"}
              /\ Ev.k \in s.named
     /\ (Check \in {"C23", "C07"}) => \/ [kind |-> "garbage", k |-> Ev.k] \in s.deliv
                            \/ \A j \in 1..Len(Ev.tags) : [kind |-> "ok", k |-> Ev.k, tag |-> Ev.tags[j]] \in s.deliv
     /\ (Check = "C41" /\ Ev.res = "badsalt") => s.nbad[Ev.k] >= 2
     /\ s' = [s EXCEPT !.rst[Ev.k] = "done", !.due[Ev.k] = -1]
  \/ /\ Ev.ev = "onmessage"
     /\ (Check \in {"C23", "C07"}) => (Ev.tag = -1 \/ Ev.tag \in s.allUpds)
     /\ s' = [s EXCEPT !.seenUpd = @ \cup {Ev.tag}]
  \/ /\ Ev.ev = "onsession" /\ s' = s
  \/ /\ Ev.ev = "runend"
     /\ (Check = "C43") => ((Ev.res = "pongmissed" => s.loopOut) /\ ((s.loopOut /\ ~s.endReq) => Ev.res = "pongmissed"))
     /\ (Check = "C23") => (Ev.res \in {"ctx", "pongmissed"})
     /\ s' = [s EXCEPT !.ended = TRUE]
  \/ /\ Ev.ev = "endcase"
     /\ (Check = "C23") => s.upds \subseteq s.seenUpd
     /\ (Check = "C08") => IdSeqOK
     /\ s' = s

Next == /\ i <= Len(Trace) /\ i' = i + 1
        /\ \/ Reset
           \/ Step /\ UNCHANGED tr
Spec == Init /\ [][Next]_vars

Mark == TLCSet(1, i) /\ TLCSet(2, tr)
Accepted == IF TLCGet(1) = Len(Trace) + 1 THEN TRUE
            ELSE PrintT(<<"REJECTED at line", TLCGet(1), "trace", TLCGet(2)>>) /\ FALSE
=============================================================================
