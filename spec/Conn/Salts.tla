------------------------------- MODULE Salts -------------------------------
(* C41.  Implementation-shaped model of mtproto/salts (Store / Get / Reset),   *)
(* Conn.updateSalt (lookahead 300 s), storeSalt from new_session_created and   *)
(* bad_server_salt, and the single retry of Conn.Invoke.  hist is the script   *)
(* replayed on the real connection.                                            *)
EXTENDS Integers, Sequences, FiniteSets, TLC, Json

CONSTANTS MaxSteps, SimDepth, Reqs

\* future salts the server may announce: salt value -> absolute end of validity (s from start)
Until == [x \in {101, 102, 103, 104} |-> CASE x = 101 -> 250 [] x = 102 -> 700 [] x = 103 -> 2000 [] x = 104 -> 5200]
FutureSalts == DOMAIN Until
ToldSalts == {21, 22}
Lookahead == 300

VARIABLES list,     \* stored future salts, sorted by descending validity end (salts.Store)
          cur,      \* Conn.salt
          now,
          told,     \* last salt told by new_session_created / bad_server_salt / options
          rq,       \* rq[k] \in {"idle","sent","resent","done"}
          lastSent, \* salt of the last written frame
          okUse,    \* every frame so far carried an allowed salt
          n, hist
vars == <<list, cur, now, told, rq, lastSent, okUse, n, hist>>
View == <<list, cur, now, told, rq, lastSent, okUse, n>>

Step(s) == /\ n < MaxSteps /\ n' = n + 1 /\ hist' = Append(hist, s)

\* salts.Store: append, drop later duplicates of a salt value, sort by validity end descending
RECURSIVE InsertDesc(_, _)
InsertDesc(sorted, x) ==
  IF sorted = <<>> THEN <<x>>
  ELSE IF Until[Head(sorted)] >= Until[x] THEN <<Head(sorted)>> \o InsertDesc(Tail(sorted), x)
  ELSE <<x>> \o sorted
RECURSIVE SortDesc(_)
SortDesc(s) == IF s = <<>> THEN <<>> ELSE InsertDesc(SortDesc(Tail(s)), Head(s))
SetToSeq(S) == LET RECURSIVE F(_) F(T) == IF T = {} THEN <<>> ELSE LET x == CHOOSE y \in T : TRUE IN <<x>> \o F(T \ {x}) IN F(S)
Store(l, S) == SortDesc(l \o SetToSeq(S \ {l[j] : j \in 1..Len(l)}))

\* salts.Get(deadline): smallest validity end beyond the deadline, dropping expired entries
Valid(l, date) == SelectSeq(l, LAMBDA x : Until[x] > date)
Get(l, date) == LET v == Valid(l, date) IN IF v = <<>> THEN [ok |-> FALSE, salt |-> 0, list |-> IF l = <<>> \/ Until[l[Len(l)]] > date THEN l ELSE v]
                ELSE [ok |-> TRUE, salt |-> v[Len(v)], list |-> IF Until[l[Len(l)]] > date THEN l ELSE v]

\* session(): updateSalt then read c.salt
Use == LET g == Get(list, now + Lookahead) IN [salt |-> IF g.ok THEN g.salt ELSE cur, list |-> g.list]
Allowed(x) == x = told \/ (x \in FutureSalts /\ Until[x] > now + Lookahead)
              \/ ({y \in FutureSalts : y \in {list[j] : j \in 1..Len(list)} /\ Until[y] > now + Lookahead} = {} /\ x = cur)

Write(step) ==
  LET u == Use IN
  /\ cur' = u.salt /\ list' = u.list /\ lastSent' = u.salt
  /\ okUse' = (okUse /\ Allowed(u.salt))
  /\ Step(step)

\* every incoming message is decrypted with session(), which runs updateSalt first
Announce(S) ==
  /\ S # {} /\ list' = Store(Use.list, S) /\ cur' = Use.salt
  /\ Step([op |-> "srv", msg |-> [t |-> "salts", list |-> [j \in 1..Len(SetToSeq(S)) |-> <<0, Until[SetToSeq(S)[j]] - now, SetToSeq(S)[j]>>]]])
  /\ UNCHANGED <<now, told, rq, lastSent, okUse>>

Tick(d) ==
  /\ now + d <= 6000 /\ now' = now + d
  /\ Step([op |-> "tick", ms |-> d * 1000])
  /\ UNCHANGED <<list, cur, told, rq, lastSent, okUse>>

Session(x) ==
  /\ cur' = x /\ told' = x /\ list' = Use.list
  /\ Step([op |-> "srv", msg |-> [t |-> "session", salt |-> x]])
  /\ UNCHANGED <<now, rq, lastSent, okUse>>

PingA(k) == Write([op |-> "ping", k |-> k]) /\ UNCHANGED <<now, told, rq>>

Invoke(k) ==
  /\ rq[k] = "idle"
  /\ rq' = [rq EXCEPT ![k] = "sent"]
  /\ Write([op |-> "invoke", k |-> k]) /\ UNCHANGED <<now, told>>

\* bad_server_salt for an outstanding request: storeSalt(new), salts.Reset(), one re-send; a second one fails the call
BadSalt(k, x) ==
  /\ rq[k] \in {"sent", "resent"}
  /\ Step([op |-> "srv", msg |-> [t |-> "badsalt", of |-> k, salt |-> x]])
  /\ IF rq[k] = "sent"
     THEN /\ told' = x /\ rq' = [rq EXCEPT ![k] = "resent"]
          /\ LET g == Get(<<>>, now + Lookahead) IN cur' = x /\ list' = <<>> /\ lastSent' = x
          /\ okUse' = okUse
     ELSE /\ rq' = [rq EXCEPT ![k] = "done"] /\ cur' = Use.salt /\ list' = Use.list /\ UNCHANGED <<told, lastSent, okUse>>
  /\ UNCHANGED now

Result(k) ==
  /\ rq[k] \in {"sent", "resent"}
  /\ rq' = [rq EXCEPT ![k] = "done"]
  /\ Step([op |-> "srv", msg |-> [t |-> "result", of |-> k, body |-> [t |-> "res", tag |-> k]]])
  /\ cur' = Use.salt /\ list' = Use.list
  /\ UNCHANGED <<now, told, lastSent, okUse>>

Init == /\ list = <<>> /\ cur = 11 /\ now = 0 /\ told = 11 /\ rq = [k \in Reqs |-> "idle"]
        /\ lastSent = 11 /\ okUse = TRUE /\ n = 0 /\ hist = <<>>
Next == \/ \E S \in SUBSET FutureSalts : Announce(S)
        \/ \E d \in {200, 500, 1500} : Tick(d)
        \/ \E x \in ToldSalts : Session(x)
        \/ \E k \in Reqs : Invoke(k) \/ Result(k) \/ \E x \in ToldSalts : BadSalt(k, x)
        \/ PingA(9)

OnlyValidSalts == okUse
ListSorted == \A j \in 1..(Len(list) - 1) : Until[list[j]] >= Until[list[j + 1]]

Case == [cfg |-> "salts", salt0 |-> 11, pingInterval |-> 100000000, retryInterval |-> 100000000, steps |-> hist]
Dump == (n = SimDepth) => PrintT(ToJson(Case))
DumpEnd == (n = MaxSteps) => PrintT(ToJson(Case))
=============================================================================
