CONSTANTS MaxMsgs = 6 SimDepth = 6
INIT Init
NEXT Next
INVARIANTS Sane
CONSTRAINT Dump
CHECK_DEADLOCK FALSE
