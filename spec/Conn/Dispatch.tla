------------------------------ MODULE Dispatch ------------------------------
(* C23.  Model of mtproto handleMessage / handleContainer / handleGZIP /      *)
(* handleResult routing: server payload trees over the kinds handleMessage     *)
(* switches on, with two pending requests whose ids the payloads may or may    *)
(* not name.  The spec predicts which request completes with what; hist is     *)
(* the script replayed on the real connection.                                 *)
EXTENDS Integers, Sequences, FiniteSets, TLC, Json

CONSTANTS MaxTrees, SimDepth, Deep,
          CancelFirst   \* 0, or the request whose caller gives up right after sending (before any server payload)

Reqs == {1, 2}

\* result bodies
Bodies(k) == { [t |-> "res", tag |-> 10 * k + 1],
               [t |-> "rpcerr", code |-> 400, msg |-> "SOME_ERROR_3"],
               [t |-> "gzip", body |-> [t |-> "res", tag |-> 10 * k + 2]],
               [t |-> "gzip", body |-> [t |-> "rpcerr", code |-> 420, msg |-> "FLOOD_WAIT_7"]],
               [t |-> "pong", foreign |-> 3],
               [t |-> "raw", words |-> <<12345>>],
               [t |-> "trunc", keep |-> 6, body |-> [t |-> "res", tag |-> 77]] }

Leaves ==
  UNION { {[t |-> "result", of |-> k, body |-> b] : b \in Bodies(k)} : k \in Reqs }
  \cup { [t |-> "result", foreign |-> 5, body |-> [t |-> "res", tag |-> 99]],
         [t |-> "result", of |-> 3, body |-> [t |-> "res", tag |-> 98]],
         [t |-> "update", tag |-> 41], [t |-> "update", tag |-> 42],
         [t |-> "ack", ks |-> <<1>>], [t |-> "ack", ks |-> <<1, 2, 3>>],
         [t |-> "badmsg", of |-> 1, code |-> 33], [t |-> "badmsg", foreign |-> 2, code |-> 16],
         [t |-> "pong", foreign |-> 4], [t |-> "detailed"],
         [t |-> "pong", of |-> 3], [t |-> "result", foreign |-> 6, body |-> [t |-> "pong", of |-> 3]],
         [t |-> "salts", list |-> <<<<0, 4000, 104>>>>],
         [t |-> "raw", words |-> <<>>], [t |-> "raw", words |-> <<1, 2, 3>>],
         [t |-> "trunc", keep |-> 10, body |-> [t |-> "result", of |-> 1, body |-> [t |-> "res", tag |-> 76]]],
         [t |-> "trunc", keep |-> 6, body |-> [t |-> "container", msgs |-> <<[t |-> "update", tag |-> 43]>>]] }

Wrap1 == Leaves \cup {[t |-> "gzip", body |-> l] : l \in Leaves}
Trees == IF Deep
         THEN Wrap1 \cup {[t |-> "container", msgs |-> <<a, b>>] : a \in Wrap1, b \in Leaves}
                    \cup {[t |-> "gzip", body |-> [t |-> "container", msgs |-> <<a>>]] : a \in Leaves}
         ELSE Wrap1 \cup {[t |-> "container", msgs |-> <<a, b>>] : a \in Leaves, b \in {l \in Leaves : l.t \in {"result", "update", "pong"}}}

Has(r, f) == f \in DOMAIN r

\* predicted completion of request k by message m: "" = none
RECURSIVE ResOut(_)
ResOut(b) == IF b.t = "res" THEN <<"ok", b.tag>>
             ELSE IF b.t = "rpcerr" THEN <<"rpc", b.code>>
             ELSE IF b.t = "gzip" THEN ResOut(b.body)
             ELSE IF b.t = "pong" THEN <<"none", 0>>
             ELSE <<"garbage", 0>>
RECURSIVE Outs(_)
\* sequence of [k, out] in handling order; a truncated / raw node stops the handling of its container
Outs(m) ==
  IF m.t = "container" THEN LET RECURSIVE F(_) F(j) == IF j > Len(m.msgs) THEN <<>> ELSE Outs(m.msgs[j]) \o F(j + 1) IN F(1)
  ELSE IF m.t = "gzip" THEN Outs(m.body)
  ELSE IF m.t = "result" /\ Has(m, "of") THEN <<[k |-> m.of, out |-> ResOut(m.body)]>>
  ELSE IF m.t = "badmsg" /\ Has(m, "of") THEN <<[k |-> m.of, out |-> <<"badmsg", 0>>]>>
  ELSE <<>>

VARIABLES rq, n, hist, wrong
vars == <<rq, n, hist, wrong>>

\* a request completes with the first decisive outcome naming it
RECURSIVE ApplyOuts(_, _)
ApplyOuts(r, os) ==
  IF os = <<>> THEN r
  ELSE LET o == Head(os) IN
       ApplyOuts(IF o.k \in Reqs /\ r[o.k] = <<"pending">> /\ o.out[1] # "none" THEN [r EXCEPT ![o.k] = o.out] ELSE r, Tail(os))

Deliver(m) ==
  /\ n < MaxTrees /\ n' = n + 1
  /\ rq' = ApplyOuts(rq, Outs(m))
  /\ wrong' = (wrong \/ \E j \in 1..Len(Outs(m)) : Outs(m)[j].k \notin Reqs /\ FALSE)
  /\ hist' = Append(hist, [op |-> "srv", msg |-> m])

\* the caller of request k gives up: Invoke asks the server to drop the answer (rpc_drop_answer, never answered in these
\* scripts) and payloads naming k may still arrive while that is under way; they complete nothing any more
CancelReq(k) ==
  /\ n < MaxTrees /\ n' = n + 1 /\ rq[k] = <<"pending">>
  /\ \A j \in Reqs : rq[j] # <<"ctx">>          \* at most one per script
  /\ rq' = [rq EXCEPT ![k] = <<"ctx">>]
  /\ hist' = Append(hist, [op |-> "cancel", who |-> "i", k |-> k])
  /\ UNCHANGED wrong

Init == rq = [k \in Reqs |-> IF k = CancelFirst THEN <<"ctx">> ELSE <<"pending">>] /\ n = 0 /\ wrong = FALSE
        /\ hist = <<[op |-> "invoke", k |-> 1], [op |-> "invoke", k |-> 2], [op |-> "ping", k |-> 3]>>
                  \o (IF CancelFirst = 0 THEN <<>> ELSE <<[op |-> "cancel", who |-> "i", k |-> CancelFirst]>>)
Next == (\E m \in Trees : Deliver(m)) \/ (\E k \in Reqs : CancelReq(k))

\* a request only ever completes with an outcome carried by a message naming it (by construction of Outs)
OwnOnly == ~wrong

Case == [cfg |-> "dispatch", salt0 |-> 11, pingInterval |-> 100000000, retryInterval |-> 100000000, steps |-> hist, pred |-> [k \in Reqs |-> rq[k]]]
Dump == (n = SimDepth) => PrintT(ToJson(Case))
DumpEnd == (n = MaxTrees) => PrintT(ToJson(Case))
=============================================================================
