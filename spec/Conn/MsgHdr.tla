------------------------------- MODULE MsgHdr -------------------------------
(* C07 (connection level).  Header / padding / session / time / replay classes *)
(* of otherwise valid server messages, as mtproto.Conn.decryptMessage and      *)
(* crypto.Cipher.Decrypt treat them.  Acceptable(h) is the statement of C07.   *)
(* hist is the script replayed on the real connection.                         *)
EXTENDS Integers, Sequences, FiniteSets, TLC, Json

CONSTANTS MaxMsgs, SimDepth

Variants ==
  { [v |-> "good"] }
  \cup { [v |-> "session", session |-> "other"] }
  \cup { [v |-> "key", key |-> "other"] }
  \cup { [v |-> "idtype", idtype |-> t] : t \in 0..3 }
  \cup { [v |-> "offset", offset |-> o] : o \in {-100000, -302, -298, -10, 28, 32, 5000} }
  \cup { [v |-> "pad", pad |-> p] : p \in {"p0", "p4", "p8", "p12", "p1024", "p1040", "unaligned"} }

Has(r, f) == f \in DOMAIN r
\* C07: processed only if ...
Acceptable(h) ==
  /\ ~Has(h, "session") /\ ~Has(h, "key")
  /\ Has(h, "idtype") => h.idtype \in {1, 3}
  /\ Has(h, "offset") => (h.offset >= -300 /\ h.offset <= 30)
  /\ Has(h, "pad") => h.pad \in {"p12", "p1024"}
\* the library stops the connection on messages it cannot decrypt (not part of C07; such a message ends a script)
Fatal(h) == Has(h, "key") \/ (Has(h, "pad") /\ h.pad \notin {"p12", "p1024"})

Hdr(h) == [x \in DOMAIN h \ {"v"} |-> h[x]]

VARIABLES n, hist, accepted, dead, nsrv
vars == <<n, hist, accepted, dead, nsrv>>

Msg(k) == IF k <= 2 THEN [t |-> "result", of |-> k, body |-> [t |-> "res", tag |-> 10 * k]]
          ELSE [t |-> "update", tag |-> 40 + k]

Send(h, k) ==
  /\ ~dead /\ n < MaxMsgs
  /\ n' = n + 1 /\ nsrv' = nsrv + 1
  /\ hist' = Append(hist, IF h.v = "good" THEN [op |-> "srv", msg |-> Msg(k)] ELSE [op |-> "srv", msg |-> Msg(k), hdr |-> Hdr(h)])
  /\ accepted' = IF Acceptable(h) THEN accepted \cup {nsrv} ELSE accepted
  /\ dead' = Fatal(h)

\* a message carrying the msg id of an earlier accepted one
Replay(m, k) ==
  /\ ~dead /\ n < MaxMsgs /\ m \in accepted
  /\ n' = n + 1 /\ nsrv' = nsrv + 1
  /\ hist' = Append(hist, [op |-> "srv", msg |-> Msg(k), hdr |-> [replay |-> m]])
  /\ UNCHANGED <<accepted, dead>>

\* nsrv starts at 1: message 0 is the pong of the driver's preamble
Init == n = 0 /\ nsrv = 1 /\ accepted = {0} /\ dead = FALSE
        /\ hist = <<[op |-> "invoke", k |-> 1], [op |-> "invoke", k |-> 2]>>
Next == \/ \E h \in Variants : \E k \in {1, 2, 3 + n} : Send(h, k)
        \/ \E m \in 0..5 : \E k \in {1, 2, 3 + n} : Replay(m, k)

Sane == accepted \subseteq 0..(nsrv - 1)
Case == [cfg |-> "hdr", salt0 |-> 11, pingInterval |-> 100000000, retryInterval |-> 100000000, steps |-> hist]
Dump == (n = SimDepth) => PrintT(ToJson(Case))
DumpEnd == (n = MaxMsgs \/ dead) => PrintT(ToJson(Case))
=============================================================================
