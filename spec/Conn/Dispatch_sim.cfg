CONSTANTS MaxTrees = 4 SimDepth = 4 Deep = TRUE CancelFirst = 0
INIT Init
NEXT Next
INVARIANTS OwnOnly
CONSTRAINT Dump
CHECK_DEADLOCK FALSE
