CONSTANTS MaxTrees = 4 SimDepth = 4 Deep = TRUE
INIT Init
NEXT Next
INVARIANTS OwnOnly
CONSTRAINT Dump
CHECK_DEADLOCK FALSE
