CONSTANTS MaxTrees = 1 SimDepth = 99 Deep = FALSE CancelFirst = 1
INIT Init
NEXT Next
INVARIANTS OwnOnly
CONSTRAINT DumpEnd
CHECK_DEADLOCK FALSE
