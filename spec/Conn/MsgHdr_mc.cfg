CONSTANTS MaxMsgs = 2 SimDepth = 99
INIT Init
NEXT Next
INVARIANTS Sane
CONSTRAINT DumpEnd
CHECK_DEADLOCK FALSE
