CONSTANT Check = "C07"
SPECIFICATION Spec
CONSTRAINT Mark
POSTCONDITION Accepted
CHECK_DEADLOCK FALSE
