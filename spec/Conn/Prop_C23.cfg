CONSTANT Check = "C23"
SPECIFICATION Spec
CONSTRAINT Mark
POSTCONDITION Accepted
CHECK_DEADLOCK FALSE
