CONSTANT Check = "C08"
SPECIFICATION Spec
CONSTRAINT Mark
POSTCONDITION Accepted
CHECK_DEADLOCK FALSE
