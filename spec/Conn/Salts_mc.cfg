CONSTANTS MaxSteps = 5 SimDepth = 99 Reqs = {1}
INIT Init
NEXT Next
VIEW View
INVARIANTS OnlyValidSalts ListSorted
CONSTRAINT DumpEnd
CHECK_DEADLOCK FALSE
