CONSTANTS Pings = {1, 2, 3} MaxSteps = 12 SimDepth = 12
INIT Init
NEXT Next
INVARIANTS OkOnlyAfterOwnPong CtxOnlyAfterCancel NoLeak
CONSTRAINT Dump
CHECK_DEADLOCK FALSE
