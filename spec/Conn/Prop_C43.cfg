CONSTANT Check = "C43"
SPECIFICATION Spec
CONSTRAINT Mark
POSTCONDITION Accepted
CHECK_DEADLOCK FALSE
