CONSTANTS Procs = {1,2} LockedKinds = {"content"} MaxRel = 3
INIT Init
NEXT Next
INVARIANTS IdSeqConsistent UniqueIds
CHECK_DEADLOCK FALSE
