CONSTANTS Procs = {1,2,3} LockedKinds = {"content","service"} MaxRel = 4
INIT Init
NEXT Next
INVARIANTS IdSeqConsistent UniqueIds
CONSTRAINT Dump
CHECK_DEADLOCK FALSE
