CONSTANTS MaxSteps = 14 SimDepth = 14 Reqs = {1, 2}
INIT Init
NEXT Next
INVARIANTS OnlyValidSalts ListSorted
CONSTRAINT Dump
CHECK_DEADLOCK FALSE
