CONSTANTS Pings = {1, 2} MaxSteps = 6 SimDepth = 99
INIT Init
NEXT Next
VIEW View
INVARIANTS OkOnlyAfterOwnPong CtxOnlyAfterCancel NoLeak
CONSTRAINT DumpEnd
CHECK_DEADLOCK FALSE
