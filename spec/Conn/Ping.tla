------------------------------- MODULE Ping -------------------------------
(* C43.  Implementation-shaped model of mtproto/ping.go: the ping map       *)
(* (ping id -> channel), Conn.Ping, handlePong and the keep-alive loop.      *)
(* hist is the script replayed on the real connection (harness/cmd/conndrv). *)
EXTENDS Integers, Sequences, FiniteSets, TLC, Json

CONSTANTS Pings,      \* ids of user pings, e.g. {1, 2}
          MaxSteps,
          SimDepth

\* pong ids: a user ping's id, the loop's id (0), or a foreign id (100)
PongIds == Pings \cup {0, 100}

VARIABLES st,        \* st[k] \in {"idle","waiting","ok","ctx"}  user pings
          reg,       \* set of registered ids (the c.ping map), 0 = loop ping
          cancelled, \* set of user pings whose context ended
          got,       \* got[k]: a pong with k's id arrived while k was registered
          loop,      \* "idle" | "waiting" | "dead"
          n, hist
vars == <<st, reg, cancelled, got, loop, n, hist>>
View == <<st, reg, cancelled, got, loop, n>>

Held == \E j \in Pings : st[j] = "held"
Step(s) == /\ n < MaxSteps /\ n' = n + 1 /\ hist' = Append(hist, s)

\* Conn.Ping: register, write, then wait
StartPing(k) ==
  /\ st[k] = "idle" /\ loop # "dead" /\ ~Held
  /\ st' = [st EXCEPT ![k] = "waiting"] /\ reg' = reg \cup {k}
  /\ Step([op |-> "ping", k |-> k])
  /\ UNCHANGED <<cancelled, got, loop>>

\* fault: the transport reports the write of ping k as failed after the bytes have left (the peer may answer it).
\* Conn.Ping is inside Send meanwhile ("held"); when Send returns the error, Ping returns it and unregisters.
StartPingHeld(k) ==
  /\ st[k] = "idle" /\ loop = "idle" /\ n + 2 <= MaxSteps /\ ~\E j \in Pings : st[j] = "held"
  /\ st' = [st EXCEPT ![k] = "held"] /\ reg' = reg \cup {k}
  /\ n' = n + 2 /\ hist' = hist \o <<[op |-> "wfail", on |-> TRUE], [op |-> "ping", k |-> k]>>
  /\ UNCHANGED <<cancelled, got, loop>>
ReleaseFail(k) ==
  /\ st[k] = "held"
  /\ st' = [st EXCEPT ![k] = "werr"] /\ reg' = reg \ {k}
  /\ Step([op |-> "wfail", on |-> FALSE])
  /\ UNCHANGED <<cancelled, got, loop>>
\* handlePong: close + delete when registered; the waiter's select then returns nil
Pong(id) ==
  /\ loop # "dead"
  /\ Step(IF id = 100 THEN [op |-> "srv", msg |-> [t |-> "pong", foreign |-> 1]]
          ELSE [op |-> "srv", msg |-> [t |-> "pong", of |-> id]])
  /\ IF id \in reg
     THEN /\ reg' = reg \ {id}
          /\ IF id = 0 THEN loop' = "idle" /\ UNCHANGED <<st, got>>
             ELSE /\ st' = [st EXCEPT ![id] = IF @ = "held" THEN "held" ELSE "ok"] /\ got' = [got EXCEPT ![id] = TRUE] /\ UNCHANGED loop
     ELSE UNCHANGED <<st, reg, got, loop>>
  /\ UNCHANGED cancelled

\* a pong carrying a foreign ping id whose msg_id field names the ping request of k (or of the loop, k = 0)
PongForeignAnswering(k) ==
  /\ loop # "dead" /\ k \in reg /\ ~Held
  /\ Step([op |-> "srv", msg |-> [t |-> "pong", foreign |-> 2, msgof |-> k]])
  /\ UNCHANGED <<st, reg, cancelled, got, loop>>

\* the same pong twice in one container (the second finds the id no longer registered)
PongTwice(id) ==
  /\ loop # "dead" /\ id \in Pings /\ ~Held
  /\ Step([op |-> "srv", msg |-> [t |-> "container", msgs |-> <<[t |-> "pong", of |-> id], [t |-> "result", foreign |-> 7, body |-> [t |-> "pong", of |-> id]]>>]])
  /\ IF id \in reg
     THEN /\ reg' = reg \ {id} /\ st' = [st EXCEPT ![id] = "ok"] /\ got' = [got EXCEPT ![id] = TRUE]
     ELSE UNCHANGED <<st, reg, got>>
  /\ UNCHANGED <<cancelled, loop>>

\* a pong wrapped in an rpc_result (handleResult routes it to handlePong)
PongInResult(id) ==
  /\ loop # "dead" /\ id \in Pings /\ ~Held
  /\ Step([op |-> "srv", msg |-> [t |-> "result", foreign |-> 7, body |-> [t |-> "pong", of |-> id]]])
  /\ IF id \in reg
     THEN /\ reg' = reg \ {id} /\ st' = [st EXCEPT ![id] = "ok"] /\ got' = [got EXCEPT ![id] = TRUE]
     ELSE UNCHANGED <<st, reg, got>>
  /\ UNCHANGED <<cancelled, loop>>

Cancel(k) ==
  /\ st[k] \in {"waiting", "ok"} /\ k \notin cancelled /\ ~Held
  /\ cancelled' = cancelled \cup {k}
  /\ st' = [st EXCEPT ![k] = IF @ = "waiting" THEN "ctx" ELSE @]
  /\ reg' = reg \ {k}
  /\ Step([op |-> "cancel", who |-> "p", k |-> k])
  /\ UNCHANGED <<got, loop>>

\* keep-alive loop: ticker fires, ping_delay_disconnect is written, loop waits with the ping timeout
LoopTick ==
  /\ loop = "idle" /\ ~Held
  /\ loop' = "waiting" /\ reg' = reg \cup {0}
  /\ Step([op |-> "tick", ms |-> 60000])
  /\ UNCHANGED <<st, cancelled, got>>

\* no matching pong within the ping timeout: the loop returns an error, Run ends
LoopTimeout ==
  /\ loop = "waiting"
  /\ loop' = "dead" /\ reg' = reg \ {0}
  /\ Step([op |-> "wait", ms |-> 1500])
  /\ UNCHANGED <<st, cancelled, got>>

Init == /\ st = [k \in Pings |-> "idle"] /\ reg = {} /\ cancelled = {} /\ got = [k \in Pings |-> FALSE]
        /\ loop = "idle" /\ n = 0 /\ hist = <<>>
Next == \/ \E k \in Pings : StartPing(k) \/ Cancel(k) \/ PongInResult(k) \/ PongTwice(k) \/ StartPingHeld(k) \/ ReleaseFail(k)
        \/ \E id \in PongIds : Pong(id)
        \/ \E k \in Pings \cup {0} : PongForeignAnswering(k)
        \/ LoopTick \/ LoopTimeout

\* C43 on the model
OkOnlyAfterOwnPong == \A k \in Pings : st[k] = "ok" => got[k]
CtxOnlyAfterCancel == \A k \in Pings : st[k] = "ctx" => k \in cancelled
NoLeak == \A k \in Pings : k \in reg => st[k] \in {"waiting", "held"}

Case == [cfg |-> "ping", salt0 |-> 11, pingInterval |-> 60000, pingTimeout |-> 300, steps |-> hist]
Dump == (n = SimDepth) => PrintT(ToJson(Case))
\* exhaustive: one script per distinct state at the step bound
DumpEnd == (n = MaxSteps) => PrintT(ToJson(Case))
=============================================================================
