------------------------------- MODULE MsgSeq -------------------------------
(* C08 at the connection: mtproto.Conn.nextMsgSeq gives every outgoing message  *)
(* its (msg id, seqno) pair.  Several goroutines call it (Invoke, Ping, the ack *)
(* loop, the keep-alive loop).  The id source (Options.MessageID) is a           *)
(* scheduling point: a call has allocated its id and is descheduled before it    *)
(* returns.  In the code the id allocation and the content-message counter are   *)
(* one critical section (reqMux); Locked(k) says which kinds take the lock, so   *)
(* that the design question "does every kind need it?" is checked by TLC         *)
(* (MsgSeq_nolock.cfg is expected to violate IdSeqConsistent).                   *)
(* The environment may try to let any started call return from the id source at  *)
(* any time (Rel); when the call is not there (it is blocked on the lock) the     *)
(* attempt is a recorded no-op: scripts are attempted schedules,                 *)
(* the real code decides what they mean.                                         *)
EXTENDS Integers, Sequences, FiniteSets, TLC, Json

CONSTANTS Procs, LockedKinds, MaxRel

Kinds == {"content", "service"}
VARIABLES pc, kind, id, seq, lock, nextId, content, rels, hist
vars == <<pc, kind, id, seq, lock, nextId, content, rels, hist>>
View == <<pc, kind, id, seq, lock, nextId, content, rels>>

Init == /\ pc = [p \in Procs |-> "idle"] /\ kind = [p \in Procs |-> "none"]
        /\ id = [p \in Procs |-> 0] /\ seq = [p \in Procs |-> -1]
        /\ lock = 0 /\ nextId = 1 /\ content = 0 /\ rels = 0 /\ hist = <<>>

\* the caller starts (Invoke for a content message, Ping for a service message); processes start in order
Start(p, k) ==
  /\ pc[p] = "idle" /\ \A q \in Procs : q < p => pc[q] # "idle"
  /\ pc' = [pc EXCEPT ![p] = "want"] /\ kind' = [kind EXCEPT ![p] = k]
  /\ hist' = Append(hist, [op |-> IF k = "content" THEN "invoke" ELSE "ping", k |-> p])
  /\ UNCHANGED <<id, seq, lock, nextId, content, rels>>
\* it takes reqMux (when its kind does) and enters the id source, which allocates the id: happens by itself
Enter(p) ==
  /\ pc[p] = "want" /\ (kind[p] \in LockedKinds => lock = 0)
  /\ lock' = IF kind[p] \in LockedKinds THEN p ELSE lock
  /\ id' = [id EXCEPT ![p] = nextId] /\ nextId' = nextId + 1
  /\ pc' = [pc EXCEPT ![p] = "insrc"]
  /\ UNCHANGED <<kind, seq, content, rels, hist>>
\* the environment lets process p return from the id source (or tries to)
Rel(p) ==
  /\ rels < MaxRel /\ pc[p] \in {"want", "insrc"} /\ rels' = rels + 1
  /\ hist' = Append(hist, [op |-> "relid", k |-> p])
  /\ IF pc[p] = "insrc"
     THEN /\ seq' = [seq EXCEPT ![p] = 2 * content + (IF kind[p] = "content" THEN 1 ELSE 0)]
          /\ content' = content + (IF kind[p] = "content" THEN 1 ELSE 0)
          /\ lock' = IF lock = p THEN 0 ELSE lock
          /\ pc' = [pc EXCEPT ![p] = "done"]
     ELSE UNCHANGED <<seq, content, lock, pc>>
  /\ UNCHANGED <<kind, id, nextId>>

Next == \E p \in Procs : Enter(p) \/ Rel(p) \/ \E k \in Kinds : Start(p, k)
Spec == Init /\ [][Next]_vars

\* C08 (sequence-number clause): a message's seqno is twice the number of content messages with a smaller
\* id, plus one if it is a content message itself — whatever the interleaving
Smaller(p) == {q \in Procs : pc[q] \in {"insrc", "done"} /\ kind[q] = "content" /\ id[q] < id[p]}
IdSeqConsistent ==
  \A p \in Procs : pc[p] = "done" =>
     seq[p] = 2 * Cardinality(Smaller(p)) + (IF kind[p] = "content" THEN 1 ELSE 0)
UniqueIds == \A p, q \in Procs : (p # q /\ id[p] # 0 /\ id[q] # 0) => id[p] # id[q]

\* scripts: every maximal attempted schedule (release budget used up, or everybody done)
Finished == (\A p \in Procs : pc[p] # "idle") /\ (rels = MaxRel \/ \A p \in Procs : pc[p] = "done")
Script == [cfg |-> "msgseq", salt0 |-> 11, pingInterval |-> 100000000, retryInterval |-> 100000000,
           steps |-> <<[op |-> "gateid", on |-> TRUE]>> \o hist]
EnterEnabled(p) == pc[p] = "want" /\ (kind[p] \in LockedKinds => lock = 0)
Dump == (Finished /\ \A p \in Procs : ~EnterEnabled(p)) => PrintT(ToJson(Script))
=============================================================================
