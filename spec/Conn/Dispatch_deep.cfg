CONSTANTS MaxTrees = 1 SimDepth = 99 Deep = TRUE
INIT Init
NEXT Next
INVARIANTS OwnOnly
CONSTRAINT DumpEnd
CHECK_DEADLOCK FALSE
