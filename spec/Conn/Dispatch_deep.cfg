CONSTANTS MaxTrees = 1 SimDepth = 99 Deep = TRUE CancelFirst = 0
INIT Init
NEXT Next
INVARIANTS OwnOnly
CONSTRAINT DumpEnd
CHECK_DEADLOCK FALSE
