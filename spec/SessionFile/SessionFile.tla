---------------------------- MODULE SessionFile ----------------------------
(* C31: session file updates are atomic with respect to crashes.             *)
(* The program is NOT written by hand: Ops is the system-call trace of the    *)
(* real session.FileStorage.StoreSession recorded with strace (file OPS_FILE, *)
(* one JSON object per call, restricted to the session file, its directory    *)
(* and temporary files). This module is a small file-system model that runs   *)
(* that program and lets the process or the machine stop at every point:      *)
(*   process crash : everything done by completed system calls survives       *)
(*                   (page cache), a write may be cut short;                  *)
(*   power loss    : file data survives only up to the last fsync of that     *)
(*                   file (any older/partial content may be on disk instead), *)
(*                   a rename survives only after an fsync of the directory.  *)
(* Contents are abstract: old (complete previous session), new (complete new  *)
(* session), empty, part(n) = first n bytes of the new data, oldpart(n) = new *)
(* data written over the old file without truncation, absent.                 *)
EXTENDS Integers, Sequences, FiniteSets, TLC, Json, IOUtils

Ops == ndJsonDeserialize(IOEnv.OPS_FILE)
NewLen == Ops[1].newlen          \* first line: header [op |-> "header", newlen |-> n]
NOps == Len(Ops)
OldLen == Ops[1].oldlen

C(k, n) == [kind |-> k, n |-> n]
Old == C("old", 0)  New == C("new", 0)  Empty == C("empty", 0)  Absent == C("absent", 0)
\* the whole new data written over the old file without truncation: the new session when it is at least as long
OverOld(n) == IF n >= OldLen THEN New ELSE C("oldpart", n)

VARIABLES pc, names, vol, dur, fds, pdur, ninode, crashed, images
\* names: name -> inode (0 none); vol: inode -> content; dur: inode -> set of contents possibly on disk
\* pdur: set of inodes the name "P" may durably refer to (0 = entry absent)
vars == <<pc, names, vol, dur, fds, pdur, ninode, crashed, images>>

Init == /\ pc = 2
        /\ names = [P |-> 1, T |-> 0]
        /\ vol = <<Old>> /\ dur = <<{Old}>>
        /\ fds = [f \in 0..63 |-> 0]
        /\ pdur = {1} /\ ninode = 1 /\ crashed = "no" /\ images = {}

Op == Ops[pc]
Nm(p) == IF p = "P" THEN "P" ELSE "T"
Appended(c, n) ==   \* content after writing n more bytes at the current end / start
  CASE c.kind = "empty" -> IF n >= NewLen THEN New ELSE C("part", n)
    [] c.kind = "part" -> IF c.n + n >= NewLen THEN New ELSE C("part", c.n + n)
    [] c.kind = "old" -> IF n >= NewLen THEN OverOld(NewLen) ELSE C("oldpart", n)
    [] c.kind = "oldpart" -> IF c.n + n >= NewLen THEN OverOld(NewLen) ELSE C("oldpart", c.n + n)
    [] OTHER -> c

Step ==
  /\ crashed = "no" /\ pc <= NOps
  /\ pc' = pc + 1
  /\ CASE Op.op = "open" ->
            LET nm == Nm(Op.path) IN
            IF names[nm] = 0
            THEN /\ ninode' = ninode + 1
                 /\ names' = [names EXCEPT ![nm] = ninode + 1]
                 /\ vol' = Append(vol, Empty) /\ dur' = Append(dur, {Empty})
                 /\ fds' = [fds EXCEPT ![Op.fd] = ninode + 1]
                 /\ pdur' = IF nm = "P" THEN pdur \cup {ninode + 1} ELSE pdur
            ELSE /\ fds' = [fds EXCEPT ![Op.fd] = names[nm]]
                 /\ IF Op.trunc
                    THEN /\ vol' = [vol EXCEPT ![names[nm]] = Empty]
                         /\ dur' = [dur EXCEPT ![names[nm]] = @ \cup {Empty}]
                    ELSE UNCHANGED <<vol, dur>>
                 /\ UNCHANGED <<names, ninode, pdur>>
       [] Op.op = "write" ->
            LET i == fds[Op.fd] IN
            /\ i # 0
            /\ vol' = [vol EXCEPT ![i] = Appended(vol[i], Op.n)]
            /\ dur' = [dur EXCEPT ![i] = @ \cup {Appended(vol[i], Op.n), Appended(vol[i], 1), Appended(vol[i], Op.n \div 2)}]
            /\ UNCHANGED <<names, fds, pdur, ninode>>
       [] Op.op = "fsync" ->
            LET i == fds[Op.fd] IN
            /\ dur' = IF i = 0 THEN dur ELSE [dur EXCEPT ![i] = {vol[i]}]
            /\ UNCHANGED <<names, vol, fds, pdur, ninode>>
       [] Op.op = "fsyncdir" ->
            /\ pdur' = {names["P"]}
            /\ UNCHANGED <<names, vol, dur, fds, ninode>>
       [] Op.op = "rename" ->
            /\ names' = [names EXCEPT ![Nm(Op.dst)] = names[Nm(Op.src)], ![Nm(Op.src)] = 0]
            /\ pdur' = IF Nm(Op.dst) = "P" THEN pdur \cup {names[Nm(Op.src)]} ELSE pdur
            /\ UNCHANGED <<vol, dur, fds, ninode>>
       [] Op.op = "unlink" ->
            /\ names' = [names EXCEPT ![Nm(Op.path)] = 0]
            /\ pdur' = IF Nm(Op.path) = "P" THEN pdur \cup {0} ELSE pdur
            /\ UNCHANGED <<vol, dur, fds, ninode>>
       [] OTHER -> UNCHANGED <<names, vol, dur, fds, pdur, ninode>>
  /\ UNCHANGED <<crashed, images>>

ContentOf(i) == IF i = 0 THEN Absent ELSE vol[i]
\* process crash between two system calls
CrashProc ==
  /\ crashed = "no"
  /\ crashed' = "proc" /\ images' = {ContentOf(names["P"])}
  /\ UNCHANGED <<pc, names, vol, dur, fds, pdur, ninode>>
\* process crash in the middle of a write: only the first k bytes were transferred
CrashMidWrite ==
  /\ crashed = "no" /\ pc <= NOps /\ Op.op = "write" /\ fds[Op.fd] # 0 /\ Op.n > 1
  /\ \E k \in {1, Op.n \div 2, Op.n - 1} :
       LET i == fds[Op.fd]
           v == [vol EXCEPT ![i] = Appended(vol[i], k)] IN
       images' = {IF names["P"] = 0 THEN Absent ELSE v[names["P"]]}
  /\ crashed' = "midwrite"
  /\ UNCHANGED <<pc, names, vol, dur, fds, pdur, ninode>>
\* power loss between two system calls: any durable combination
CrashPower ==
  /\ crashed = "no"
  /\ crashed' = "power"
  /\ images' = UNION { IF i = 0 THEN {Absent} ELSE dur[i] : i \in pdur }
  /\ UNCHANGED <<pc, names, vol, dur, fds, pdur, ninode>>

Next == Step \/ CrashProc \/ CrashMidWrite \/ CrashPower
Spec == Init /\ [][Next]_vars

Good(c) == c.kind \in {"old", "new"}
\* C31
OldOrNew == crashed # "no" => \A c \in images : Good(c)
FinallyNew == (crashed = "no" /\ pc > NOps) => ContentOf(names["P"]) = New

\* every post-crash image of the session file, for the real Loader
DumpImages == crashed # "no" => \A c \in images : PrintT(ToJson([at |-> pc, crash |-> crashed, img |-> c]))
=============================================================================
