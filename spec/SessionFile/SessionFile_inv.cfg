SPECIFICATION Spec
INVARIANTS OldOrNew FinallyNew
CHECK_DEADLOCK FALSE
