SPECIFICATION Spec
INVARIANTS FinallyNew
CONSTRAINT DumpImages
CHECK_DEADLOCK FALSE
