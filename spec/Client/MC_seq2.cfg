CONSTANTS Reqs = {1,2} Concurrent = FALSE
INIT Init
NEXT Next
INVARIANTS NoResendAfterAck ErrOnlyIfAckedOrClosed AtMostOneResend UnackedAnswered
CONSTRAINT DumpEnd
CHECK_DEADLOCK FALSE
