------------------------------ MODULE Reconnect ------------------------------
(* C29.  A request pending on the primary connection when that connection      *)
(* dies (telegram/invoke.go invokeConn, telegram/connect.go reconnect loop,    *)
(* rpc engine close classification): not acknowledged => re-sent on the        *)
(* replacement connection and answered; acknowledged => not sent again, the    *)
(* caller gets an error; client closed => pending invocations return.          *)
(* The server's behaviour towards the first arrival of each request is its     *)
(* policy; later arrivals are answered.                                        *)
EXTENDS Integers, Sequences, FiniteSets, TLC, Json

CONSTANTS Reqs, Concurrent

\* "sendfail": the connection is already dying when the request is written: the write fails, nothing reaches the server
Policies == {"answer", "kill", "ack_kill", "result_kill", "ack_answer", "hold", "sendfail"}

VARIABLES pol, idx, alive, closed, st, rc, gen, acked
vars == <<pol, idx, alive, closed, st, rc, gen, acked>>
Order == [i \in 1..Cardinality(Reqs) |-> i]       \* requests 1..n are issued in this order

Pending(k) == st[k] \in {"sent", "acked"}
Busy == \E k \in Reqs : Pending(k)

Init == /\ pol \in [Reqs -> Policies]
        /\ (Concurrent => \A k \in Reqs : pol[k] # "sendfail")
        /\ idx = 1 /\ alive = TRUE /\ closed = FALSE /\ gen = 1
        /\ st = [k \in Reqs |-> "new"] /\ rc = [k \in Reqs |-> 0] /\ acked = {}

\* the client sends request k on the live connection; the server reacts according to its policy
Issue(k) ==
  /\ idx <= Cardinality(Reqs) /\ Order[idx] = k /\ alive /\ ~closed /\ st[k] = "new"
  /\ (~Concurrent => ~Busy)
  /\ (Concurrent => pol[k] # "sendfail")
  /\ idx' = idx + 1 /\ rc' = [rc EXCEPT ![k] = IF pol[k] = "sendfail" /\ ~Concurrent THEN @ ELSE @ + 1]
  /\ IF Concurrent
     THEN \* the server lets both requests arrive before it acts (see ServerActsOnBoth)
          st' = [st EXCEPT ![k] = "sent"] /\ UNCHANGED <<alive, acked>>
     ELSE CASE pol[k] = "answer" -> st' = [st EXCEPT ![k] = "ok"] /\ UNCHANGED <<alive, acked>>
            [] pol[k] = "ack_answer" -> st' = [st EXCEPT ![k] = "ok"] /\ acked' = acked \cup {k} /\ UNCHANGED alive
            [] pol[k] = "kill" -> st' = [st EXCEPT ![k] = "sent"] /\ alive' = FALSE /\ UNCHANGED acked
            [] pol[k] = "ack_kill" -> st' = [st EXCEPT ![k] = "acked"] /\ acked' = acked \cup {k} /\ alive' = FALSE
            [] pol[k] = "result_kill" -> /\ alive' = FALSE /\ UNCHANGED acked
                                         /\ \/ st' = [st EXCEPT ![k] = "ok"]      \* the result was read before the death was noticed
                                            \/ st' = [st EXCEPT ![k] = "sent"]    \* or it was not
            [] pol[k] = "hold" -> st' = [st EXCEPT ![k] = "sent"] /\ UNCHANGED <<alive, acked>>
            [] pol[k] = "sendfail" -> st' = [st EXCEPT ![k] = "sent"] /\ alive' = FALSE /\ UNCHANGED acked
  /\ UNCHANGED <<pol, closed, gen>>

\* concurrent mode: with every request in flight the server acknowledges those whose policy says so and kills the link
ServerActsOnBoth ==
  /\ Concurrent /\ alive /\ idx > Cardinality(Reqs) /\ gen = 1 /\ \A k \in Reqs : st[k] = "sent"
  /\ st' = [k \in Reqs |-> IF pol[k] \in {"ack_kill", "ack_answer"} THEN "acked" ELSE "sent"]
  /\ acked' = {k \in Reqs : pol[k] \in {"ack_kill", "ack_answer"}}
  /\ alive' = FALSE
  /\ UNCHANGED <<pol, idx, closed, rc, gen>>

\* the dead connection's engine is closed: acknowledged requests fail, the others wait for the new connection
Death ==
  /\ ~alive /\ \E k \in Reqs : st[k] = "acked"
  /\ st' = [k \in Reqs |-> IF st[k] = "acked" THEN "err" ELSE st[k]]
  /\ UNCHANGED <<pol, idx, alive, closed, rc, gen, acked>>

\* reconnect loop replaces the connection; invokeConn re-sends what was not acknowledged; the server answers it
Reconnect ==
  /\ ~alive /\ ~closed /\ ~\E k \in Reqs : st[k] = "acked"
  /\ alive' = TRUE /\ gen' = gen + 1
  /\ st' = [k \in Reqs |-> IF st[k] = "sent" THEN "ok" ELSE st[k]]
  /\ rc' = [k \in Reqs |-> IF st[k] = "sent" THEN rc[k] + 1 ELSE rc[k]]
  /\ UNCHANGED <<pol, idx, closed, acked>>

\* the client is closed while a held request is pending
Close ==
  /\ ~closed /\ alive /\ \E k \in Reqs : st[k] = "sent" /\ pol[k] = "hold"
  /\ closed' = TRUE
  /\ st' = [k \in Reqs |-> IF Pending(k) \/ st[k] = "new" THEN "err" ELSE st[k]]
  /\ UNCHANGED <<pol, idx, alive, rc, gen, acked>>

Next == (\E k \in Reqs : Issue(k)) \/ ServerActsOnBoth \/ Death \/ Reconnect \/ Close
Spec == Init /\ [][Next]_vars

\* C29
NoResendAfterAck == \A k \in acked : rc[k] = 1
ErrOnlyIfAckedOrClosed == \A k \in Reqs : st[k] = "err" => (k \in acked \/ closed)
AtMostOneResend == \A k \in Reqs : rc[k] <= 2
Done == \A k \in Reqs : st[k] \in {"ok", "err"}
UnackedAnswered == (Done /\ ~closed) => \A k \in Reqs : k \notin acked => st[k] = "ok"

Case == [concurrent |-> Concurrent, reqs |-> [i \in 1..Cardinality(Reqs) |-> [k |-> i, policy |-> pol[i]]],
         outcome |-> [i \in 1..Cardinality(Reqs) |-> [k |-> i, res |-> st[i], receipts |-> rc[i]]]]
DumpEnd == Done => PrintT(ToJson(Case))
=============================================================================
