------------------------------ MODULE Reconnect ------------------------------
(* C29.  A request pending on the primary connection when that connection      *)
(* dies (telegram/invoke.go invokeConn, telegram/connect.go reconnect loop,    *)
(* rpc engine close classification): not acknowledged => re-sent on the        *)
(* replacement connection and answered; acknowledged => not sent again, the    *)
(* caller gets an error; client closed => pending invocations return.          *)
(* The server's behaviour towards the first arrival of each request is its     *)
(* policy; later arrivals are answered.                                        *)
EXTENDS Integers, Sequences, FiniteSets, TLC, Json

CONSTANTS Reqs, Concurrent

\* "sendfail": the connection is already dying when the request is written: the write fails, nothing reaches the server
\* "kill_rekill": the link dies with the request pending (not acknowledged); the replacement connection dies too, at the
\* moment the waiting invoker has noticed it and before it re-sent anything; the second replacement answers
Policies == {"answer", "kill", "ack_kill", "result_kill", "ack_answer", "hold", "sendfail", "kill_rekill"}

VARIABLES pol, idx, alive, closed, st, rc, gen, acked, rekill
vars == <<pol, idx, alive, closed, st, rc, gen, acked, rekill>>
Order == [i \in 1..Cardinality(Reqs) |-> i]       \* requests 1..n are issued in this order

Pending(k) == st[k] \in {"sent", "acked"}
Busy == \E k \in Reqs : Pending(k)

Init == /\ pol \in [Reqs -> Policies]
        /\ (Concurrent => \A k \in Reqs : pol[k] \notin {"sendfail", "kill_rekill"})
        /\ rekill = FALSE
        /\ idx = 1 /\ alive = TRUE /\ closed = FALSE /\ gen = 1
        /\ st = [k \in Reqs |-> "new"] /\ rc = [k \in Reqs |-> 0] /\ acked = {}

\* the client sends request k on the live connection; the server reacts according to its policy
Issue(k) ==
  /\ idx <= Cardinality(Reqs) /\ Order[idx] = k /\ alive /\ ~closed /\ st[k] = "new"
  /\ (~Concurrent => ~Busy)
  /\ (Concurrent => pol[k] # "sendfail")
  /\ idx' = idx + 1 /\ rc' = [rc EXCEPT ![k] = IF pol[k] = "sendfail" /\ ~Concurrent THEN @ ELSE @ + 1]
  /\ IF Concurrent
     THEN \* the server lets both requests arrive before it acts (see ServerActsOnBoth)
          st' = [st EXCEPT ![k] = "sent"] /\ UNCHANGED <<alive, acked>>
     ELSE CASE pol[k] = "answer" -> st' = [st EXCEPT ![k] = "ok"] /\ UNCHANGED <<alive, acked>>
            [] pol[k] = "ack_answer" -> st' = [st EXCEPT ![k] = "ok"] /\ acked' = acked \cup {k} /\ UNCHANGED alive
            [] pol[k] \in {"kill", "kill_rekill"} -> st' = [st EXCEPT ![k] = "sent"] /\ alive' = FALSE /\ UNCHANGED acked
            [] pol[k] = "ack_kill" -> st' = [st EXCEPT ![k] = "acked"] /\ acked' = acked \cup {k} /\ alive' = FALSE
            [] pol[k] = "result_kill" -> /\ alive' = FALSE /\ UNCHANGED acked
                                         /\ \/ st' = [st EXCEPT ![k] = "ok"]      \* the result was read before the death was noticed
                                            \/ st' = [st EXCEPT ![k] = "sent"]    \* or it was not
            [] pol[k] = "hold" -> st' = [st EXCEPT ![k] = "sent"] /\ UNCHANGED <<alive, acked>>
            [] pol[k] = "sendfail" -> st' = [st EXCEPT ![k] = "sent"] /\ alive' = FALSE /\ UNCHANGED acked
  /\ rekill' = (rekill \/ (~Concurrent /\ pol[k] = "kill_rekill"))
  /\ UNCHANGED <<pol, closed, gen>>

\* concurrent mode: with every request in flight the server acknowledges those whose policy says so and kills the link
ServerActsOnBoth ==
  /\ Concurrent /\ alive /\ idx > Cardinality(Reqs) /\ gen = 1 /\ \A k \in Reqs : st[k] = "sent"
  /\ st' = [k \in Reqs |-> IF pol[k] \in {"ack_kill", "ack_answer"} THEN "acked" ELSE "sent"]
  /\ acked' = {k \in Reqs : pol[k] \in {"ack_kill", "ack_answer"}}
  /\ alive' = FALSE
  /\ UNCHANGED <<pol, idx, closed, rc, gen, rekill>>

\* the dead connection's engine is closed: acknowledged requests fail, the others wait for the new connection
Death ==
  /\ ~alive /\ \E k \in Reqs : st[k] = "acked"
  /\ st' = [k \in Reqs |-> IF st[k] = "acked" THEN "err" ELSE st[k]]
  /\ UNCHANGED <<pol, idx, alive, closed, rc, gen, acked, rekill>>

\* reconnect loop replaces the connection; invokeConn re-sends what was not acknowledged; the server answers it
Reconnect ==
  /\ ~alive /\ ~closed /\ ~\E k \in Reqs : st[k] = "acked"
  /\ gen' = gen + 1
  /\ IF rekill
     THEN \* the waiting invoker wakes up, and this connection dies before the request is written to it
          /\ rekill' = FALSE /\ UNCHANGED <<alive, st, rc>>
     ELSE /\ alive' = TRUE /\ UNCHANGED rekill
          /\ st' = [k \in Reqs |-> IF st[k] = "sent" THEN "ok" ELSE st[k]]
          /\ rc' = [k \in Reqs |-> IF st[k] = "sent" THEN rc[k] + 1 ELSE rc[k]]
  /\ UNCHANGED <<pol, idx, closed, acked>>

\* the client is closed while a held request is pending
Close ==
  /\ ~closed /\ alive /\ \E k \in Reqs : st[k] = "sent" /\ pol[k] = "hold"
  /\ closed' = TRUE
  /\ st' = [k \in Reqs |-> IF Pending(k) \/ st[k] = "new" THEN "err" ELSE st[k]]
  /\ UNCHANGED <<pol, idx, alive, rc, gen, acked, rekill>>

Next == (\E k \in Reqs : Issue(k)) \/ ServerActsOnBoth \/ Death \/ Reconnect \/ Close
Spec == Init /\ [][Next]_vars

\* C29
NoResendAfterAck == \A k \in acked : rc[k] = 1
ErrOnlyIfAckedOrClosed == \A k \in Reqs : st[k] = "err" => (k \in acked \/ closed)
AtMostOneResend == \A k \in Reqs : rc[k] <= 2
Done == \A k \in Reqs : st[k] \in {"ok", "err"}
UnackedAnswered == (Done /\ ~closed) => \A k \in Reqs : k \notin acked => st[k] = "ok"

Case == [concurrent |-> Concurrent, reqs |-> [i \in 1..Cardinality(Reqs) |-> [k |-> i, policy |-> pol[i]]],
         outcome |-> [i \in 1..Cardinality(Reqs) |-> [k |-> i, res |-> st[i], receipts |-> rc[i]]]]
DumpEnd == Done => PrintT(ToJson(Case))
=============================================================================
