CONSTANTS Thorough = FALSE
