------------------------------ MODULE MsgCrypt ------------------------------
(* C04, C05, C07 (padding clause), C14: symbolic model of MTProto 2.0        *)
(* message encryption. A ciphertext is a term Enc(side, key, plaintext);      *)
(* decryption by the opposite side under the same key of an untouched term    *)
(* yields the plaintext; anything else yields nothing. Padding arithmetic of  *)
(* countPadding is transcribed and checked for every length class and every   *)
(* value of the random byte.                                                  *)
EXTENDS Integers, Sequences, FiniteSets, TLC, Json

CONSTANTS Thorough

HeaderLen == 32     \* salt 8 + session 8 + msg_id 8 + seq_no 4 + length 4
PadLen(l, r) == LET p0 == (16 - (l % 16)) % 16
                    p1 == IF p0 < 12 THEN p0 + 16 ELSE p0
                IN p1 + (r % 16) * 16      \* r & 0x0F
ASSUME PaddingBounds == \A l \in 0..63 : \A r \in 0..255 : PadLen(l, r) >= 12 /\ PadLen(l, r) <= 1024 /\ (l + PadLen(l, r)) % 16 = 0

Sides == {"client", "server"}
Opp(s) == IF s = "client" THEN "server" ELSE "client"
\* symbolic decryption
Dec(decSide, decKey, ct) == IF ct.touched = "none" /\ ct.key = decKey /\ ct.side = Opp(decSide) THEN "plain" ELSE "nothing"
ASSUME RoundTripSymbolic == \A s \in Sides : Dec(Opp(s), "k1", [side |-> s, key |-> "k1", touched |-> "none"]) = "plain"
ASSUME ReflectionRejected == \A s \in Sides : Dec(s, "k1", [side |-> s, key |-> "k1", touched |-> "none"]) = "nothing"

PayloadLens == {0, 4, 8, 12, 16, 20, 24, 28, 1020, 1024, 1028, 65536} \cup (IF Thorough THEN {32, 36, 40, 44, 48, 262144, 1048576 - 64} ELSE {})
RandBytes == {0, 1, 7, 15, 16, 240, 255}
\* C04: round trip, both directions
C04Cases == { [prop |-> "C04", cls |-> "roundtrip", in |-> [kind |-> "roundtrip", side |-> s, len |-> l, rbyte |-> r],
               expect |-> [ok |-> TRUE, fields_equal |-> TRUE, payload_equal |-> TRUE, body_mod16 |-> 0, pad |-> PadLen(HeaderLen + l, r)]]
              : s \in Sides, l \in PayloadLens, r \in RandBytes }
\* C05: every tamper class, reflection, foreign key
Tampers == {"flip_authkeyid", "flip_msgkey", "flip_body_first", "flip_body_mid", "flip_body_last", "truncate16", "truncate_odd",
            "extend16", "extend_odd", "reflect", "foreign_key", "foreign_key_same_id", "swap_blocks", "zero_msgkey"}
C05Cases == { [prop |-> "C05", cls |-> "tamper", in |-> [kind |-> "tamper", side |-> s, len |-> l, tamper |-> t],
               expect |-> [ok |-> FALSE, leaked |-> FALSE]] : s \in Sides, l \in {0, 16, 1024}, t \in Tampers }
\* an adversary is not limited to one forgery: `n` independent forgeries of the trailing ciphertext blocks of one valid
\* message (the header blocks stay intact, so only the msg_key comparison stands between the forgery and the caller).
\* With a full 128-bit comparison none is ever accepted; a comparison of fewer bits shows up within a few hundred tries.
C05BruteCases == { [prop |-> "C05", cls |-> "brute", in |-> [kind |-> "brute", side |-> s, len |-> l, n |-> IF Thorough THEN 20000 ELSE 3000, blocks |-> k],
                    expect |-> [accepted |-> 0]] : s \in Sides, l \in {68, 1024}, k \in {1, 2} }
\* C07 padding clause: messages built with an exact padding length (authentic key, correct msg_key)
Pads == {0, 4, 8, 12, 16, 28, 1008, 1024, 1028, 1040, 2048}
PadOK(p) == p >= 12 /\ p <= 1024
C07PadCases == { [prop |-> "C07", cls |-> "padding", in |-> [kind |-> "padding", pad |-> p, lenfield |-> "ok"],
                  expect |-> [ok |-> PadOK(p), nopanic |-> TRUE]] : p \in Pads }
C07LenCases == { [prop |-> "C07", cls |-> "lenfield", in |-> [kind |-> "padding", pad |-> 16, lenfield |-> lf],
                  expect |-> [ok |-> FALSE, nopanic |-> TRUE]] : lf \in {"negative", "unaligned", "beyond", "huge"} }
\* C14: RSA padding schemes (term level: Dec(priv(k2), Enc(pub(k1), m)) = m iff k1 = k2 and untouched)
C14Cases == { [prop |-> "C14", cls |-> "rsapad", in |-> [kind |-> "rsapad", scheme |-> sc, len |-> l, key |-> k, touched |-> t],
               expect |-> IF sc = "pad" /\ l > 144 THEN [encrypt_ok |-> FALSE]
                          ELSE IF sc = "hashed" /\ l > 235 THEN [encrypt_ok |-> FALSE]
                          ELSE IF k = "same" /\ t = "none" THEN [encrypt_ok |-> TRUE, decrypt_ok |-> TRUE, data_equal |-> TRUE, ct_len |-> 256]
                          ELSE [encrypt_ok |-> TRUE, decrypt_ok |-> FALSE]]
              : sc \in {"pad", "hashed"}, l \in {0, 1, 16, 143, 144, 145, 235, 236}, k \in {"same", "other"}, t \in {"none", "flip", "zero"} }
ASSUME Dump == \A c \in C04Cases \cup C05Cases \cup C05BruteCases \cup C07PadCases \cup C07LenCases \cup C14Cases : PrintT(ToJson(c))
=============================================================================
