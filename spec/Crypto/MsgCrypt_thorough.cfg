CONSTANTS Thorough = TRUE
