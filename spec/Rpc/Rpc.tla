------------------------------- MODULE Rpc -------------------------------
(* Implementation-shaped model of rpc/engine.go + rpc/ack.go.                *)
(* One action per critical section between two verifhook gates:              *)
(*   Do(i):      Start -> [gate RPCRegistered] -> FirstSend ->               *)
(*               [gate RPCBeforeRetry] -> RetrySel* -> [gate RPCBeforeWait]  *)
(*               -> WaitSel -> (Cleanup) -> returned                         *)
(*   reader(j):  Lookup -> [gate RPCAfterLookup] -> Cas ->                   *)
(*               [gate RPCAfterCAS] -> Decode                                *)
(*   NotifyAcks, Cancel, Tick (fake clock), ForceClose are atomic.           *)
(*   Close (graceful): GC sets the flag, GCRet when every call returned.     *)
(* Fix24 / Fix25 select the repaired behaviour (see DESIGN.md §8):           *)
(*   Fix24: Do's deferred cleanup claims the handler flag or waits for an    *)
(*          in-flight handler, so Output is never written after return.      *)
(*   Fix25: the retry timer branch re-checks ctx/ack before re-sending.      *)
EXTENDS Integers, Sequences, FiniteSets, TLC, Json

CONSTANTS Reqs, Notifs, MaxRetries, MaxTicks, SendMayFail, SendMayBlock, Fix24, Fix25, SimDepth, MayClose

VARIABLES r,      \* per request record
          n,      \* per reader-notification record
          g,      \* globals: closed (reqCtx cancelled), flag (Engine.closed), gc (graceful Close), fcRet, ticks
          w,      \* witnesses for action properties (history)
          hist    \* sequence of action labels (hidden by VIEW)

vars == <<r, n, g, w, hist>>
View == <<r, n, g>>

R0 == [pc |-> "new", sentOK |-> FALSE, handler |-> "none", ackReg |-> FALSE, acked |-> FALSE,
       called |-> FALSE, done |-> FALSE, rcancel |-> FALSE, cancelled |-> FALSE,
       armed |-> FALSE, fired |-> FALSE, sends |-> 0, retries |-> 0, ret |-> "none",
       writes |-> 0, drops |-> 0, resKind |-> "none"]
N0 == [pc |-> "idle", id |-> 0, kind |-> "none"]

Init == /\ r = [i \in Reqs |-> R0]
        /\ n = [j \in Notifs |-> N0]
        /\ g = [closed |-> FALSE, flag |-> FALSE, gc |-> "no", fcRet |-> FALSE, ticks |-> 0]
        /\ w = [lateWrite |-> FALSE, sendAfterAck |-> FALSE, foreignWrite |-> FALSE]
        /\ hist = <<>>

Lab(a) == hist' = Append(hist, a)
SetR(i, f) == r' = [r EXCEPT ![i] = f]

\* leaving retryUntilAck: removeAck + StopTimer
LeaveRetry(x) == [x EXCEPT !.ackReg = FALSE, !.armed = FALSE, !.fired = FALSE]
\* deferred cleanup in Do: delete handler, retryClose
Returned(x, k) == [x EXCEPT !.pc = "returned", !.ret = k, !.handler = "none", !.rcancel = TRUE]
\* With Fix24 the deferred function first claims the handler flag; if a handler call is in
\* flight (called but not done) Do parks in "cleanup" until Decode finishes.
Finish(x, k) == IF Fix24 /\ x.called /\ ~x.done
                THEN [x EXCEPT !.pc = "cleanup", !.ret = k, !.handler = "none", !.rcancel = TRUE]
                ELSE IF Fix24 THEN [Returned(x, k) EXCEPT !.called = TRUE]
                ELSE Returned(x, k)

Start(i) ==
  /\ r[i].pc = "new"
  /\ IF g.flag THEN SetR(i, [r[i] EXCEPT !.pc = "returned", !.ret = "closedRetryable"])
     ELSE SetR(i, [r[i] EXCEPT !.pc = "registered", !.handler = "real"])
  /\ Lab([a |-> "Start", i |-> i]) /\ UNCHANGED <<n, g, w>>

\* ok \in {"ok", "fail", "block"}: the send function succeeds, fails, or blocks inside the write
FirstSend(i, ok) ==
  /\ r[i].pc = "registered"
  /\ IF ok = "ok" THEN SetR(i, [r[i] EXCEPT !.pc = "retry", !.sentOK = TRUE, !.ackReg = TRUE, !.armed = TRUE, !.sends = 1])
     ELSE IF ok = "fail" THEN SetR(i, Finish(r[i], "senderr"))
     ELSE SetR(i, [r[i] EXCEPT !.pc = "sblock1", !.ackReg = TRUE, !.sends = 1])
  /\ Lab([a |-> "FirstSend", i |-> i, ok |-> ok]) /\ UNCHANGED <<n, g, w>>

\* a blocked write completes ...
SendDone(i) ==
  /\ r[i].pc \in {"sblock1", "sblockN"}
  /\ IF r[i].pc = "sblock1" THEN SetR(i, [r[i] EXCEPT !.pc = "retry", !.sentOK = TRUE, !.armed = TRUE])
     ELSE IF r[i].retries + 1 >= MaxRetries
          THEN SetR(i, Finish(LeaveRetry([r[i] EXCEPT !.retries = @ + 1]), "retrylimit"))
          ELSE SetR(i, [r[i] EXCEPT !.pc = "retry", !.retries = @ + 1])
  /\ Lab([a |-> "SendDone", i |-> i]) /\ UNCHANGED <<n, g, w>>
\* ... or is aborted because the context passed to send was cancelled (caller cancel or result)
SendAbort(i) ==
  /\ r[i].pc \in {"sblock1", "sblockN"} /\ (r[i].cancelled \/ r[i].rcancel)
  /\ SetR(i, [LeaveRetry(r[i]) EXCEPT !.pc = "wait"])
  /\ Lab([a |-> "SendAbort", i |-> i]) /\ UNCHANGED <<n, g, w>>

\* ... or fails with a transport error (the connection broke under it): both the first send and a
\* re-send then end the call with that error
SendBreak(i) ==
  /\ r[i].pc \in {"sblock1", "sblockN"}
  /\ SetR(i, Finish(LeaveRetry(r[i]), "senderr"))
  /\ Lab([a |-> "SendBreak", i |-> i]) /\ UNCHANGED <<n, g, w>>

CtxDone(x) == x.cancelled \/ x.rcancel

\* retry select — each ready case is a separate nondeterministically chosen action
RetryCtx(i) ==
  /\ r[i].pc = "retry" /\ CtxDone(r[i])
  /\ SetR(i, [LeaveRetry(r[i]) EXCEPT !.pc = "wait"])
  /\ Lab([a |-> "RetrySel", i |-> i, br |-> "ctx"]) /\ UNCHANGED <<n, g, w>>
RetryClosed(i) ==
  /\ r[i].pc = "retry" /\ g.closed
  /\ IF r[i].acked THEN SetR(i, [LeaveRetry(r[i]) EXCEPT !.pc = "wait"])
     ELSE SetR(i, Finish(LeaveRetry(r[i]), "closedRetryable"))
  /\ Lab([a |-> "RetrySel", i |-> i, br |-> "closed"]) /\ UNCHANGED <<n, g, w>>
RetryAck(i) ==
  /\ r[i].pc = "retry" /\ r[i].acked
  /\ SetR(i, [LeaveRetry(r[i]) EXCEPT !.pc = "wait"])
  /\ Lab([a |-> "RetrySel", i |-> i, br |-> "ack"]) /\ UNCHANGED <<n, g, w>>
RetryTimer(i, ok) ==
  /\ r[i].pc = "retry" /\ r[i].fired
  /\ IF Fix25 /\ (CtxDone(r[i]) \/ r[i].acked)
     THEN \* re-check before sending: behaves like the ctx / ack branch
          /\ ok = "ok"
          /\ SetR(i, [LeaveRetry(r[i]) EXCEPT !.pc = "wait"])
          /\ UNCHANGED w
     ELSE LET x == [r[i] EXCEPT !.fired = FALSE, !.armed = TRUE] IN
          IF ok = "block" THEN
               /\ w' = [w EXCEPT !.sendAfterAck = @ \/ r[i].acked \/ r[i].done]
               /\ SetR(i, [x EXCEPT !.pc = "sblockN", !.sends = @ + 1])
          ELSE IF ok = "ok" THEN
               /\ w' = [w EXCEPT !.sendAfterAck = @ \/ r[i].acked \/ r[i].done]
               /\ IF x.retries + 1 >= MaxRetries
                  THEN SetR(i, Finish(LeaveRetry([x EXCEPT !.sends = @ + 1, !.retries = @ + 1]), "retrylimit"))
                  ELSE SetR(i, [x EXCEPT !.sends = @ + 1, !.retries = @ + 1])
          ELSE /\ SetR(i, Finish(LeaveRetry(x), "senderr")) /\ UNCHANGED w
  /\ Lab([a |-> "RetrySel", i |-> i, br |-> "timer", ok |-> ok]) /\ UNCHANGED <<n, g>>

\* final select
WaitCtx(i) ==
  /\ r[i].pc = "wait" /\ r[i].cancelled
  /\ IF r[i].sentOK THEN SetR(i, Finish([r[i] EXCEPT !.drops = @ + 1], "ctx"))
     ELSE SetR(i, Finish(r[i], "ctx"))
  /\ Lab([a |-> "WaitSel", i |-> i, br |-> "ctx"]) /\ UNCHANGED <<n, g, w>>
WaitClosed(i) ==
  /\ r[i].pc = "wait" /\ g.closed
  /\ SetR(i, Finish(r[i], IF r[i].done THEN "result" ELSE "closedAcked"))
  /\ Lab([a |-> "WaitSel", i |-> i, br |-> "closed"]) /\ UNCHANGED <<n, g, w>>
WaitDone(i) ==
  /\ r[i].pc = "wait" /\ r[i].done
  /\ SetR(i, Finish(r[i], "result"))
  /\ Lab([a |-> "WaitSel", i |-> i, br |-> "done"]) /\ UNCHANGED <<n, g, w>>

Cancel(i) ==
  /\ r[i].pc \notin {"new", "returned", "cleanup"} /\ ~r[i].cancelled
  /\ SetR(i, [r[i] EXCEPT !.cancelled = TRUE])
  /\ Lab([a |-> "Cancel", i |-> i]) /\ UNCHANGED <<n, g, w>>

Tick ==
  /\ g.ticks < MaxTicks /\ \E i \in Reqs : r[i].armed
  /\ r' = [i \in Reqs |-> IF r[i].armed THEN [r[i] EXCEPT !.armed = FALSE, !.fired = TRUE] ELSE r[i]]
  /\ g' = [g EXCEPT !.ticks = @ + 1]
  /\ Lab([a |-> "Tick"]) /\ UNCHANGED <<n, w>>

\* reader
NotifyAck(i) ==
  /\ r[i].sends > 0 /\ r[i].pc # "returned"
  /\ IF r[i].ackReg THEN SetR(i, [r[i] EXCEPT !.acked = TRUE, !.ackReg = FALSE]) ELSE UNCHANGED r
  /\ Lab([a |-> "NotifyAck", i |-> i]) /\ UNCHANGED <<n, g, w>>
Lookup(j, i, k) ==
  /\ n[j].pc = "idle" /\ r[i].sends > 0
  /\ n' = [n EXCEPT ![j] = [pc |-> IF r[i].handler = "real" THEN "cas" ELSE "finished", id |-> i, kind |-> k]]
  /\ Lab([a |-> "Lookup", j |-> j, i |-> i, k |-> k]) /\ UNCHANGED <<r, g, w>>
Cas(j) ==
  /\ n[j].pc = "cas"
  /\ LET i == n[j].id IN
     IF r[i].called THEN /\ n' = [n EXCEPT ![j].pc = "finished"] /\ UNCHANGED r
     ELSE /\ n' = [n EXCEPT ![j].pc = "decode"] /\ SetR(i, [r[i] EXCEPT !.called = TRUE])
  /\ Lab([a |-> "Cas", j |-> j]) /\ UNCHANGED <<g, w>>
Decode(j) ==
  /\ n[j].pc = "decode"
  /\ LET i == n[j].id
         x == [r[i] EXCEPT !.resKind = n[j].kind, !.done = TRUE, !.rcancel = TRUE,
                           !.writes = IF n[j].kind = "ok" THEN @ + 1 ELSE @]
     IN /\ SetR(i, IF r[i].pc = "cleanup" THEN [x EXCEPT !.pc = "returned"] ELSE x)
        /\ w' = [w EXCEPT !.lateWrite = @ \/ (n[j].kind = "ok" /\ r[i].pc = "returned")]
  /\ n' = [n EXCEPT ![j].pc = "finished"]
  /\ Lab([a |-> "Decode", j |-> j]) /\ UNCHANGED g

\* graceful Close: sets the closed flag (new calls are refused) and waits for the pending calls;
\* it cancels nothing. A later ForceClose must still cancel them.
GC ==
  /\ MayClose /\ ~g.flag /\ g.gc = "no" /\ g' = [g EXCEPT !.flag = TRUE, !.gc = "waiting"]
  /\ Lab([a |-> "GC"]) /\ UNCHANGED <<r, n, w>>
GCRet ==
  /\ g.gc = "waiting" /\ \A i \in Reqs : r[i].pc \in {"new", "returned"}
  /\ g' = [g EXCEPT !.gc = "ret"]
  /\ Lab([a |-> "GCRet"]) /\ UNCHANGED <<r, n, w>>
FC ==
  /\ ~g.closed /\ g' = [g EXCEPT !.closed = TRUE, !.flag = TRUE]
  /\ Lab([a |-> "FC"]) /\ UNCHANGED <<r, n, w>>
FCRet ==
  /\ g.closed /\ ~g.fcRet /\ \A i \in Reqs : r[i].pc \in {"new", "returned"}
  /\ g' = [g EXCEPT !.fcRet = TRUE]
  /\ Lab([a |-> "FCRet"]) /\ UNCHANGED <<r, n, w>>

B == {"ok"} \cup (IF SendMayFail THEN {"fail"} ELSE {}) \cup (IF SendMayBlock THEN {"block"} ELSE {})
Next ==
  \/ \E i \in Reqs : \/ Start(i) \/ RetryCtx(i) \/ RetryClosed(i) \/ RetryAck(i)
                     \/ WaitCtx(i) \/ WaitClosed(i) \/ WaitDone(i) \/ Cancel(i) \/ NotifyAck(i)
                     \/ SendDone(i) \/ SendAbort(i) \/ SendBreak(i)
                     \/ \E ok \in B : FirstSend(i, ok) \/ RetryTimer(i, ok)
  \/ \E j \in Notifs : Cas(j) \/ Decode(j) \/ \E i \in Reqs : Lookup(j, i, "ok") \/ Lookup(j, i, "err")
  \/ Tick \/ FC \/ FCRet \/ GC \/ GCRet

Spec == Init /\ [][Next]_vars
FairSpec == Spec /\ WF_vars(Next)

\* ---- properties -----------------------------------------------------------
\* C24
NoLateWrite == [][~w'.lateWrite]_vars
AtMostOneWrite == \A i \in Reqs : r[i].writes <= 1
ResultMeansWritten == \A i \in Reqs : (r[i].pc = "returned" /\ r[i].ret = "result") => r[i].done
\* C25
NoSendAfterAck == [][~w'.sendAfterAck]_vars
SendBound == \A i \in Reqs : r[i].sends <= 1 + MaxRetries
RetryLimitExact == \A i \in Reqs : r[i].ret = "retrylimit" => r[i].sends = 1 + MaxRetries
\* C26
DropIff == \A i \in Reqs : r[i].pc = "returned" => (r[i].drops = 1 <=> (r[i].ret = "ctx" /\ r[i].sentOK))
RetryableOnlyUnacked == \A i \in Reqs : r[i].ret = "closedRetryable" => ~r[i].acked
\* no pending Do stays blocked once the engine is closed and readers have drained:
\* in every state with the engine closed, each pending Do has an enabled step
NoStrandedAfterClose ==
  g.closed => \A i \in Reqs :
     \/ r[i].pc \in {"new", "returned", "registered", "sblock1", "sblockN"}
     \/ r[i].pc \in {"retry", "wait"}       \* closed branch of the select is ready
     \/ (r[i].pc = "cleanup" /\ \E j \in Notifs : n[j].pc = "decode" /\ n[j].id = i)
AllReturnAfterClose == g.closed ~> (\A i \in Reqs : r[i].pc \in {"new", "returned"})

\* -simulate: print every state's history; the runner keeps the maximal ones (last of each run)
Dump == PrintT(ToJson([hist |-> hist]))
=============================================================================
