------------------------------ MODULE RpcProp ------------------------------
(* Property-level trace judge for C24, C25, C26: the most permissive machine  *)
(* over the observable events of rpc.Engine (Do start/return, send calls,     *)
(* ack/result notifications, Output writes, drop calls, cancel, force close)  *)
(* that still satisfies the selected properties.  Props (cfg) selects which   *)
(* property's guards are active so that one property cannot mask another.     *)
EXTENDS Integers, Sequences, FiniteSets, TLC, Json, IOUtils

CONSTANTS Props, MaxReq, MaxNotif

Trace == ndJsonDeserialize(IOEnv.TRACE_FILE)

VARIABLES i, tr, q, c, gl
\* q[x]: per request; c[j]: per notification call; gl: globals
vars == <<i, tr, q, c, gl>>

Q0 == [st |-> "idle", sends |-> 0, fails |-> 0, msgid |-> 0, seqno |-> 0, body |-> 0, acked |-> FALSE, resret |-> FALSE,
       inflight |-> 0, ackedAtClose |-> FALSE, sentdone |-> 0,
       writes |-> 0, cancelled |-> FALSE, drops |-> 0, sendfail |-> FALSE]
C0 == [id |-> 0, k |-> "none"]
G0 == [closed |-> FALSE, gflag |-> FALSE, maxretries |-> 0, sched |-> TRUE]

Ev == Trace[i]
Init == i = 1 /\ tr = -1 /\ q = [x \in 1..MaxReq |-> Q0] /\ c = [j \in 1..MaxNotif |-> C0] /\ gl = G0

On(p, cond) == (p \in Props) => cond
X == Ev.i   \* request index of the current event

Reset == /\ Ev.ev = "reset"
         /\ tr' = Ev.trace /\ q' = [x \in 1..MaxReq |-> Q0] /\ c' = [j \in 1..MaxNotif |-> C0]
         /\ gl' = [closed |-> FALSE, gflag |-> FALSE, maxretries |-> Ev.maxretries, sched |-> Ev.sched]

DoStart == /\ Ev.ev = "DoStart" /\ q[X].st = "idle"
           /\ q' = [q EXCEPT ![X].st = "running"] /\ UNCHANGED <<tr, c, gl>>

Send == /\ Ev.ev = "Send" /\ q[X].st = "running"
        /\ On("C25", /\ q[X].sends > 0 => (Ev.msgid = q[X].msgid /\ Ev.seqno = q[X].seqno /\ Ev.body = q[X].body)
                     /\ q[X].sends + q[X].fails + 1 <= 1 + gl.maxretries
                     /\ gl.sched => (~q[X].acked /\ ~q[X].resret))
        /\ q' = [q EXCEPT ![X].sends = @ + 1, ![X].msgid = Ev.msgid, ![X].seqno = Ev.seqno, ![X].body = Ev.body]
        /\ UNCHANGED <<tr, c, gl>>
SendDone == /\ Ev.ev = "SendDone" /\ q' = [q EXCEPT ![X].sentdone = @ + 1] /\ UNCHANGED <<tr, c, gl>>
\* a transmission attempt the transport refused: it counts towards the bound like any other
SendFail == /\ Ev.ev = "SendFail"
            /\ On("C25", q[X].sends + q[X].fails + 1 <= 1 + gl.maxretries)
            /\ q' = [q EXCEPT ![X].sendfail = TRUE, ![X].fails = @ + 1] /\ UNCHANGED <<tr, c, gl>>

\* a write that was stuck inside the transport (already counted by its Send event) failed
SendBroke == /\ Ev.ev = "SendBroke" /\ q' = [q EXCEPT ![X].sendfail = TRUE] /\ UNCHANGED <<tr, c, gl>>

AckReturned == /\ Ev.ev = "AckReturned"
               /\ q' = [q EXCEPT ![X].acked = @ \/ (q[X].sends > 0 /\ q[X].st = "running")]
               /\ UNCHANGED <<tr, c, gl>>
ResultCall == /\ Ev.ev = "ResultCall" /\ c' = [c EXCEPT ![Ev.j] = [id |-> X, k |-> Ev.k]]
              /\ q' = [q EXCEPT ![X].inflight = @ + 1] /\ UNCHANGED <<tr, gl>>
\* a result counts as received once every result notification delivered so far for that id has
\* returned (messages are handled concurrently; a duplicate may return while the first decodes)
ResultReturned == /\ Ev.ev = "ResultReturned"
                  /\ LET x == c[Ev.j].id IN
                     q' = [q EXCEPT ![x].inflight = @ - 1,
                                    ![x].resret = @ \/ (q[x].st = "running" /\ q[x].sends > 0 /\ q[x].inflight = 1)]
                  /\ UNCHANGED <<tr, c, gl>>

\* Output.Decode was called for request X with the payload of notification Ev.j
Write == /\ Ev.ev = "Write"
         /\ On("C24", /\ q[X].st = "running"          \* never after (or concurrently with) the return
                      /\ q[X].writes = 0              \* duplicate results never write again
                      /\ c[Ev.j].id = X /\ c[Ev.j].k = "ok")   \* only the result addressed to its own id
         /\ q' = [q EXCEPT ![X].writes = @ + 1] /\ UNCHANGED <<tr, c, gl>>

Drop == /\ Ev.ev = "Drop"
        /\ On("C26", q[X].st = "running" /\ q[X].cancelled /\ q[X].sentdone > 0 /\ q[X].drops = 0)
        /\ q' = [q EXCEPT ![X].drops = @ + 1] /\ UNCHANGED <<tr, c, gl>>

DoReturn ==
  /\ Ev.ev = "DoReturn"
  /\ On("C24", /\ q[X].st = "running"     \* exactly once
               /\ Ev.err = "ok" => q[X].writes = 1
               /\ Ev.err = "rpcerr" => \E j \in 1..MaxNotif : c[j].id = X /\ c[j].k = "err"
               /\ Ev.err = "ctx" => q[X].cancelled
               /\ Ev.err = "closedAcked" => (gl.closed \/ q[X].cancelled)
               \* a call refused by an engine that is (being) closed never sent anything
               /\ Ev.err = "closedRetryable" => (gl.closed \/ q[X].cancelled \/ (gl.gflag /\ q[X].sends = 0))
               /\ Ev.err = "senderr" => q[X].sendfail
               /\ Ev.err \in {"ok", "rpcerr", "ctx", "closedRetryable", "closedAcked", "senderr", "retrylimit"})
  /\ On("C25", Ev.err = "retrylimit" => q[X].sends + q[X].fails = 1 + gl.maxretries)
  /\ On("C26", /\ Ev.err = "closedRetryable" => (Ev.retryable /\ (gl.sched => ~q[X].ackedAtClose))
               /\ Ev.err = "closedAcked" => (~Ev.retryable /\ (gl.sched => (q[X].acked \/ q[X].cancelled)))
               /\ Ev.err = "ctx" => q[X].drops = (IF q[X].sentdone > 0 THEN 1 ELSE 0)
               \* once the engine is closed, a pending unacknowledged call that was not cancelled by its
               \* caller must fail with an error callers treat as safe to retry
               /\ (gl.sched /\ gl.closed /\ ~q[X].acked /\ ~q[X].cancelled
                     /\ Ev.err \notin {"ok", "rpcerr", "retrylimit", "senderr"}) => Ev.retryable
               /\ Ev.err # "ctx" => q[X].drops = 0)
  /\ q' = [q EXCEPT ![X].st = "returned"] /\ UNCHANGED <<tr, c, gl>>

Cancel == /\ Ev.ev = "Cancel" /\ q' = [q EXCEPT ![X].cancelled = TRUE] /\ UNCHANGED <<tr, c, gl>>
\* an ack racing with the close may go either way; only acks received before the close bind
ForceClose == /\ Ev.ev = "ForceClose" /\ gl' = [gl EXCEPT !.closed = TRUE]
              /\ q' = [x \in 1..MaxReq |-> [q[x] EXCEPT !.ackedAtClose = q[x].acked]] /\ UNCHANGED <<tr, c>>
\* graceful Close: refuses new calls, waits for the pending ones, cancels nothing
Close == /\ Ev.ev = "Close" /\ gl' = [gl EXCEPT !.gflag = TRUE] /\ UNCHANGED <<tr, q, c>>
\* (DoReturn is recorded after Do returned, i.e. after wg.Done: no ordering against CloseReturned to check)
CloseReturned == /\ Ev.ev = "CloseReturned" /\ UNCHANGED <<tr, q, c, gl>>
\* (the driver records DoReturn after Do returned, i.e. after wg.Done: no ordering to check here)
ForceCloseReturned == /\ Ev.ev = "ForceCloseReturned" /\ UNCHANGED <<tr, q, c, gl>>
Other == /\ Ev.ev \in {"Tick", "AckCall", "Note", "SendAbort"} /\ UNCHANGED <<tr, q, c, gl>>
\* a Do that is still pending after force close and full drain is reported by the driver as Stuck:
Stuck == /\ Ev.ev = "Stuck" /\ ~("C26" \in Props) /\ UNCHANGED <<tr, q, c, gl>>
End == /\ Ev.ev = "End"
       /\ On("C26", \A x \in 1..MaxReq : q[x].st # "running")
       /\ UNCHANGED <<tr, q, c, gl>>

Next == /\ i <= Len(Trace) /\ i' = i + 1
        /\ (Reset \/ DoStart \/ Send \/ SendDone \/ SendFail \/ SendBroke \/ AckReturned \/ ResultCall \/ ResultReturned \/ Write \/ Drop
            \/ DoReturn \/ Cancel \/ ForceClose \/ ForceCloseReturned \/ Close \/ CloseReturned \/ Other \/ Stuck \/ End)
Spec == Init /\ [][Next]_vars

Mark == TLCSet(1, i) /\ TLCSet(2, tr)
Accepted == IF TLCGet(1) = Len(Trace) + 1 THEN TRUE
            ELSE PrintT(<<"REJECTED at line", TLCGet(1), "trace", TLCGet(2)>>) /\ FALSE
=============================================================================
