CONSTANTS Reqs = {1,2} Notifs = {1,2} MaxRetries = 2 MaxTicks = 2 SendMayFail = TRUE SendMayBlock = TRUE Fix24 = TRUE Fix25 = TRUE SimDepth = 0 MayClose = TRUE
INIT Init
NEXT Next
VIEW View
INVARIANTS AtMostOneWrite ResultMeansWritten SendBound RetryLimitExact DropIff RetryableOnlyUnacked NoStrandedAfterClose
PROPERTIES NoLateWrite NoSendAfterAck
CHECK_DEADLOCK FALSE
