CONSTANTS Reqs = {1,2,3} Notifs = {1,2,3,4} MaxRetries = 2 MaxTicks = 3 SendMayFail = TRUE SendMayBlock = TRUE Fix24 = TRUE Fix25 = TRUE SimDepth = 0 MayClose = TRUE
INIT Init
NEXT Next
CONSTRAINT Dump
CHECK_DEADLOCK FALSE
