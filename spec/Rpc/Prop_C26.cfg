CONSTANTS Props = {"C26"} MaxReq = 3 MaxNotif = 4
SPECIFICATION Spec
CONSTRAINT Mark
POSTCONDITION Accepted
CHECK_DEADLOCK FALSE
