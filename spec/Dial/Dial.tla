------------------------------- MODULE Dial -------------------------------
(* C42: implementation-shaped model of telegram/dcs plain.connect:          *)
(* K dialer goroutines race; each, when its dial completes, offers the       *)
(* result on an unbuffered channel or, if the race context is cancelled,     *)
(* closes its connection. The main loop (gate DialBeforeSelect before each   *)
(* select) returns the first success, or the combined error after K          *)
(* failures, or ctx.Err() on caller cancellation; returning cancels the race *)
(* context.                                                                  *)
EXTENDS Integers, Sequences, FiniteSets, TLC, Json

CONSTANTS K

D == 1..K
VARIABLES d,        \* dialer -> "dialing" | "offer_ok" | "offer_fail" | "sent" | "closed" | "dropped"
          open,     \* set of established, not closed connections
          main,     \* "loop" | "ret_conn" | "ret_err" | "ret_ctx"
          ret,      \* returned connection (0 = none)
          remain, cancelled, raceCancelled, hist
vars == <<d, open, main, ret, remain, cancelled, raceCancelled, hist>>
View == <<d, open, main, ret, remain, cancelled, raceCancelled>>

Init == d = [k \in D |-> "dialing"] /\ open = {} /\ main = "loop" /\ ret = 0 /\ remain = K
        /\ cancelled = FALSE /\ raceCancelled = FALSE /\ hist = <<>>
Lab(a) == hist' = Append(hist, a)

\* the dial (and transport handshake) of address k completes
DialDone(k, ok) ==
  /\ d[k] = "dialing"
  /\ d' = [d EXCEPT ![k] = IF ok THEN "offer_ok" ELSE "offer_fail"]
  /\ open' = IF ok THEN open \cup {k} ELSE open
  /\ Lab([a |-> "DialDone", k |-> k, ok |-> ok])
  /\ UNCHANGED <<main, ret, remain, cancelled, raceCancelled>>
\* dialer select: race context done -> close own connection (if any)
DialerGiveUp(k) ==
  /\ d[k] \in {"offer_ok", "offer_fail"} /\ raceCancelled
  /\ d' = [d EXCEPT ![k] = IF d[k] = "offer_ok" THEN "closed" ELSE "dropped"]
  /\ open' = open \ {k}
  /\ Lab([a |-> "GiveUp", k |-> k])
  /\ UNCHANGED <<main, ret, remain, cancelled, raceCancelled>>
\* main select receives the offer of dialer k (rendezvous)
MainRecv(k) ==
  /\ main = "loop" /\ d[k] \in {"offer_ok", "offer_fail"}
  /\ d' = [d EXCEPT ![k] = "sent"]
  /\ remain' = remain - 1
  /\ IF d[k] = "offer_ok" THEN main' = "ret_conn" /\ ret' = k /\ raceCancelled' = TRUE
     ELSE IF remain = 1 THEN main' = "ret_err" /\ raceCancelled' = TRUE /\ UNCHANGED ret
     ELSE UNCHANGED <<main, ret, raceCancelled>>
  /\ Lab([a |-> "MainSel", br |-> "recv", k |-> k])
  /\ UNCHANGED <<open, cancelled>>
MainCtx ==
  /\ main = "loop" /\ cancelled
  /\ main' = "ret_ctx" /\ raceCancelled' = TRUE
  /\ Lab([a |-> "MainSel", br |-> "ctx"])
  /\ UNCHANGED <<d, open, ret, remain, cancelled>>
Cancel ==
  /\ ~cancelled /\ main = "loop" /\ cancelled' = TRUE /\ raceCancelled' = TRUE
  /\ Lab([a |-> "Cancel"])
  /\ UNCHANGED <<d, open, main, ret, remain>>

Next == \/ \E k \in D : DialDone(k, TRUE) \/ DialDone(k, FALSE) \/ DialerGiveUp(k) \/ MainRecv(k)
        \/ MainCtx \/ Cancel
Spec == Init /\ [][Next]_vars

Quiescent == main # "loop" /\ \A k \in D : d[k] \in {"sent", "closed", "dropped"}
\* C42: at the end exactly the returned connection is open
OnlyReturnedOpen == Quiescent => open = (IF main = "ret_conn" THEN {ret} ELSE {})
ErrOnlyIfAllFailed == main = "ret_err" => \A k \in D : d[k] \in {"sent", "dropped"} /\ k \notin open
\* every dialer can always finish (no stranded goroutine): a dialer offering after the return can give up
NoStuckDialer == main # "loop" => raceCancelled
Dump == PrintT(ToJson([k |-> K, hist |-> hist]))
=============================================================================
