CONSTANTS K = 3
INIT Init
NEXT Next
VIEW View
INVARIANTS OnlyReturnedOpen ErrOnlyIfAllFailed NoStuckDialer
CHECK_DEADLOCK FALSE
