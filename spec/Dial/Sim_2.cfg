CONSTANTS K = 2
INIT Init
NEXT Next
CONSTRAINT Dump
CHECK_DEADLOCK FALSE
