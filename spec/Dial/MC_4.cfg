CONSTANTS K = 4
INIT Init
NEXT Next
VIEW View
INVARIANTS OnlyReturnedOpen ErrOnlyIfAllFailed NoStuckDialer
CHECK_DEADLOCK FALSE
