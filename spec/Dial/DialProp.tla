------------------------------ MODULE DialProp ------------------------------
(* Property-level trace judge for C42 over fake-dialer events:               *)
(* Established(k), DialFailed(k), Closed(k), Returned(k|0, err), Cancel, End  *)
EXTENDS Integers, Sequences, FiniteSets, TLC, Json, IOUtils
Trace == ndJsonDeserialize(IOEnv.TRACE_FILE)
VARIABLES i, tr, open, failed, ret, cancelled, n
vars == <<i, tr, open, failed, ret, cancelled, n>>
Ev == Trace[i]
Init == i = 1 /\ tr = -1 /\ open = {} /\ failed = {} /\ ret = -1 /\ cancelled = FALSE /\ n = 0
Reset == Ev.ev = "reset" /\ tr' = Ev.trace /\ open' = {} /\ failed' = {} /\ ret' = -1 /\ cancelled' = FALSE /\ n' = Ev.k
Established == Ev.ev = "Established" /\ open' = open \cup {Ev.k} /\ UNCHANGED <<tr, failed, ret, cancelled, n>>
DialFailed == Ev.ev = "DialFailed" /\ failed' = failed \cup {Ev.k} /\ UNCHANGED <<tr, open, ret, cancelled, n>>
\* the returned connection is never closed by the resolver
Closed == /\ Ev.ev = "Closed" /\ Ev.k # ret /\ open' = open \ {Ev.k} /\ UNCHANGED <<tr, failed, ret, cancelled, n>>
Cancel == Ev.ev = "Cancel" /\ cancelled' = TRUE /\ UNCHANGED <<tr, open, failed, ret, n>>
\* exactly one return: an established connection, or an error only when every dial failed or the caller cancelled
Returned == /\ Ev.ev = "Returned" /\ ret = -1
            /\ Ev.k > 0 => Ev.k \in open
            /\ Ev.k = 0 => (cancelled \/ Cardinality(failed) = n)
            /\ ret' = Ev.k /\ UNCHANGED <<tr, open, failed, cancelled, n>>
\* after everything has settled, exactly the returned connection is open
End == /\ Ev.ev = "End" /\ ret # -1
       /\ open = (IF ret > 0 THEN {ret} ELSE {})
       /\ UNCHANGED <<tr, open, failed, ret, cancelled, n>>
Next == i <= Len(Trace) /\ i' = i + 1 /\ (Reset \/ Established \/ DialFailed \/ Closed \/ Cancel \/ Returned \/ End)
Spec == Init /\ [][Next]_vars
Mark == TLCSet(1, i) /\ TLCSet(2, tr)
Accepted == IF TLCGet(1) = Len(Trace) + 1 THEN TRUE
            ELSE PrintT(<<"REJECTED at line", TLCGet(1), "trace", TLCGet(2)>>) /\ FALSE
=============================================================================
