CONSTANTS K = 3
INIT Init
NEXT Next
CONSTRAINT Dump
CHECK_DEADLOCK FALSE
