CONSTANTS K = 4
INIT Init
NEXT Next
CONSTRAINT Dump
CHECK_DEADLOCK FALSE
