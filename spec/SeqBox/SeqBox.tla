---------------------------- MODULE SeqBox ----------------------------
(* Implementation-shaped model of telegram/updates/sequence_box.go       *)
EXTENDS Integers, Sequences, FiniteSets, TLC, SequencesExt, Json

CONSTANTS MaxPts,      \* positions 0..MaxPts
          MaxCount,    \* max count of an update
          MaxArrivals, \* bound on Handle calls
          Init0,       \* initial state
          MinCount

\* MinCount = 0 admits updates that carry a position but no count (read marks, channelTooLong): they are delivered in
\* order like any other update and never move the position
Updates == { u \in [s : 0..MaxPts, e : 1..MaxPts] : u.e - u.s >= MinCount /\ u.e - u.s <= MaxCount }

VARIABLES state, gaps, pending, timer,   \* implementation state
          arrivals,                      \* bound counter
          delivered, act, hist           \* history / label (hidden by VIEW)

vars == <<state, gaps, pending, timer, arrivals, delivered, act, hist>>
View == <<state, gaps, pending, timer, arrivals>>

Start(u) == u.s
End(u) == u.e
Count(u) == u.e - u.s

\* checkGap(local, remote, count)
CheckGap(local, remote, count) ==
  IF remote = 0 THEN "apply"
  ELSE IF local + count = remote THEN "apply"
  ELSE IF local + count > remote THEN "ignore"
  ELSE "refetch"

\* gapBuffer.Consume: first gap containing u is split; new pieces appended, then gap i removed
RECURSIVE FindGap(_, _, _)
FindGap(gs, u, i) ==
  IF i > Len(gs) THEN 0
  ELSE IF gs[i].from <= Start(u) /\ gs[i].to >= End(u) THEN i
  ELSE FindGap(gs, u, i + 1)

DelAt(s, i) == SubSeq(s, 1, i - 1) \o SubSeq(s, i + 1, Len(s))

Consume(gs, u) ==
  LET i == FindGap(gs, u, 1) IN
  IF i = 0 THEN [ok |-> FALSE, gaps |-> gs]
  ELSE LET g == gs[i]
           a == IF g.from < Start(u) THEN <<[from |-> g.from, to |-> Start(u)]>> ELSE <<>>
           b == IF g.to > End(u) THEN <<[from |-> End(u), to |-> g.to]>> ELSE <<>>
       IN [ok |-> TRUE, gaps |-> DelAt(gs \o a \o b, i)]

\* stable sort by start (insertion sort)
RECURSIVE InsertSorted(_, _)
InsertSorted(sorted, u) ==
  IF sorted = <<>> THEN <<u>>
  ELSE IF Start(Head(sorted)) <= Start(u) THEN <<Head(sorted)>> \o InsertSorted(Tail(sorted), u)
  ELSE <<u>> \o sorted
RECURSIVE SortByStart(_)
SortByStart(s) == IF s = <<>> THEN <<>> ELSE InsertSorted(SortByStart(SubSeq(s, 1, Len(s) - 1)), s[Len(s)])

\* applyPending: returns [accepted, st, rest]
RECURSIVE ApplyLoop(_, _, _, _)
ApplyLoop(p, i, st, acc) ==
  IF i > Len(p) THEN [accepted |-> acc, st |-> st, cursor |-> Len(p)]
  ELSE LET r == CheckGap(st, End(p[i]), Count(p[i])) IN
       IF r = "apply" THEN ApplyLoop(p, i + 1, End(p[i]), Append(acc, p[i]))
       ELSE IF r = "ignore" THEN ApplyLoop(p, i + 1, st, acc)
       ELSE [accepted |-> acc, st |-> st, cursor |-> i - 1]

ApplyPending(st, p) ==
  LET sp == SortByStart(p)
      r == ApplyLoop(sp, 1, st, <<>>)
  IN [accepted |-> r.accepted,
      st |-> IF r.accepted = <<>> THEN st ELSE r.st,
      rest |-> SubSeq(sp, r.cursor + 1, Len(sp))]

Deliver(batch, st) == delivered' = Append(delivered, [st |-> st, before |-> state, batch |-> batch])

RECURSIVE ConsumeAll(_, _, _)
ConsumeAll(gs, p, i) == IF i > Len(p) THEN gs ELSE ConsumeAll(Consume(gs, p[i]).gaps, p, i + 1)

Handle(u) ==
  /\ arrivals < MaxArrivals
  /\ arrivals' = arrivals + 1
  /\ act' = [name |-> "Handle", s |-> u.s, e |-> u.e]
  /\ hist' = Append(hist, act')
  /\ IF CheckGap(state, End(u), Count(u)) = "ignore"
     THEN UNCHANGED <<state, gaps, pending, timer, delivered>>
     ELSE IF gaps # <<>>
     THEN LET p2 == Append(pending, u)
              c == Consume(gaps, u) IN
          IF ~c.ok THEN /\ pending' = p2 /\ UNCHANGED <<state, gaps, timer, delivered>>
          ELSE IF c.gaps # <<>> THEN /\ pending' = p2 /\ gaps' = c.gaps /\ UNCHANGED <<state, timer, delivered>>
          ELSE LET r == ApplyPending(state, p2) IN
               /\ gaps' = <<>> /\ timer' = FALSE
               /\ pending' = r.rest
               /\ IF r.accepted = <<>> THEN UNCHANGED <<state, delivered>>
                  ELSE state' = r.st /\ Deliver(r.accepted, r.st)
     ELSE IF CheckGap(state, End(u), Count(u)) = "apply"
     THEN IF pending # <<>>
          THEN LET r == ApplyPending(state, Append(pending, u)) IN
               /\ pending' = r.rest /\ UNCHANGED <<gaps, timer>>
               /\ IF r.accepted = <<>> THEN UNCHANGED <<state, delivered>>
                  ELSE state' = r.st /\ Deliver(r.accepted, r.st)
          ELSE /\ state' = End(u) /\ Deliver(<<u>>, End(u)) /\ UNCHANGED <<gaps, pending, timer>>
     ELSE \* refetch
          LET p2 == Append(pending, u)
              g0 == <<[from |-> state, to |-> Start(u)]>>
              g1 == ConsumeAll(g0, p2, 1) IN
          IF g1 = <<>> THEN
               LET r == ApplyPending(state, p2) IN
               /\ gaps' = <<>> /\ pending' = r.rest /\ UNCHANGED timer
               /\ IF r.accepted = <<>> THEN UNCHANGED <<state, delivered>>
                  ELSE state' = r.st /\ Deliver(r.accepted, r.st)
          ELSE /\ gaps' = g1 /\ pending' = p2 /\ timer' = TRUE /\ UNCHANGED <<state, delivered>>

\* gap timeout -> getDifference: gaps.Clear(); SetState(v), v >= state (honest server)
Difference(v) ==
  /\ act' = [name |-> "Diff", v |-> v]
  /\ hist' = Append(hist, act')
  /\ gaps' = <<>> /\ state' = v /\ timer' = FALSE
  /\ delivered' = Append(delivered, [st |-> v, before |-> state, batch |-> <<>>])
  /\ UNCHANGED <<pending, arrivals>>

Init == /\ state = Init0 /\ gaps = <<>> /\ pending = <<>> /\ timer = FALSE /\ arrivals = 0
        /\ delivered = <<>> /\ act = [name |-> "Init"] /\ hist = <<>>

Next == (\E u \in Updates : Handle(u)) \/ (\E v \in state..MaxPts : timer /\ Difference(v))

Spec == Init /\ [][Next]_vars

\* ---- properties on history ----
StepOK(d) ==
    d.batch # <<>> =>
      /\ Start(d.batch[1]) = d.before
      /\ \A j \in 1..Len(d.batch)-1 : End(d.batch[j]) = Start(d.batch[j+1])
      /\ End(d.batch[Len(d.batch)]) = d.st
InOrderStep == [][Len(delivered') > Len(delivered) => StepOK(delivered'[Len(delivered')])]_vars
MonotoneStep == [][state' >= state]_vars
NoSilentSkip == [][state' # state => Len(delivered') = Len(delivered) + 1 /\ delivered'[Len(delivered')].st = state']_vars
GapsSane == \A i \in 1..Len(gaps) : gaps[i].from < gaps[i].to /\ gaps[i].from >= state
Edge == PrintT(ToJson([from |-> [state |-> state, gaps |-> gaps, pending |-> pending, timer |-> timer],
                       act |-> act',
                       to |-> [state |-> state', gaps |-> gaps', pending |-> pending', timer |-> timer']]))
\* behaviour dump for -simulate: one JSON history per run of length SimDepth
CONSTANT SimDepth
Dump == (Len(hist) = SimDepth) => PrintT(ToJson([init |-> Init0, hist |-> hist]))
=============================================================================
