CONSTANTS MaxPts = 9 MaxCount = 3 MaxArrivals = 14 Init0 = 1 MinCount = 0 SimDepth = 14
INIT Init
NEXT Next
CONSTRAINT Dump
CHECK_DEADLOCK FALSE
