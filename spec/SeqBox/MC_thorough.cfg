CONSTANTS MaxPts = 5 MaxCount = 2 MaxArrivals = 5 Init0 = 0 MinCount = 0 SimDepth = 0
INIT Init
NEXT Next
VIEW View
INVARIANTS GapsSane
PROPERTIES NoSilentSkip InOrderStep MonotoneStep
CHECK_DEADLOCK FALSE
