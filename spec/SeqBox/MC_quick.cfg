CONSTANTS MaxPts = 4 MaxCount = 2 MaxArrivals = 4 Init0 = 0 MinCount = 0 SimDepth = 0
INIT Init
NEXT Next
VIEW View
INVARIANTS GapsSane
PROPERTIES NoSilentSkip InOrderStep MonotoneStep
ACTION_CONSTRAINT Edge
CHECK_DEADLOCK FALSE
