---------------------------- MODULE SeqProp ----------------------------
(* Property-level trace judge for C01 (sequence box level).                 *)
(* Accepts every observable trace of one sequence in which                  *)
(*  - each batch handed to the apply callback is contiguous from the        *)
(*    current position (so every advancing update is delivered in order     *)
(*    and at most once), and                                                *)
(*  - the tracked position only moves to the end of such a batch or to a    *)
(*    position set by a fetched difference.                                 *)
(* Many traces per file, separated by reset events.                         *)
EXTENDS Integers, Sequences, TLC, Json, IOUtils

Trace == ndJsonDeserialize(IOEnv.TRACE_FILE)

VARIABLES i, pos, tr   \* line index, current sequence position, current trace number
vars == <<i, pos, tr>>

Ev == Trace[i]
Init == i = 1 /\ pos = 0 /\ tr = -1

Reset == /\ Ev.ev = "reset" /\ pos' = Ev.init /\ tr' = Ev.trace

RECURSIVE Contig(_, _, _)
Contig(b, k, p) == IF k > Len(b) THEN p
                   ELSE IF b[k].s = p /\ b[k].e >= b[k].s THEN Contig(b, k+1, b[k].e) ELSE -1
Apply == /\ Ev.ev = "apply"
         /\ Len(Ev.batch) > 0
         /\ Contig(Ev.batch, 1, pos) # -1
         /\ pos' = Contig(Ev.batch, 1, pos)
         /\ UNCHANGED tr
Handled == /\ Ev.ev = "handled" /\ Ev.state = pos /\ UNCHANGED <<pos, tr>>
Diff == /\ Ev.ev = "diff" /\ Ev.state = Ev.v /\ pos' = Ev.v /\ UNCHANGED tr

Next == /\ i <= Len(Trace) /\ i' = i + 1 /\ (Reset \/ Apply \/ Handled \/ Diff)
Spec == Init /\ [][Next]_vars

Mark == TLCSet(1, i) /\ TLCSet(2, tr)
Accepted == IF TLCGet(1) = Len(Trace) + 1 THEN TRUE
            ELSE PrintT(<<"REJECTED at line", TLCGet(1), "trace", TLCGet(2)>>) /\ FALSE
=============================================================================
