------------------------------ MODULE Exchange ------------------------------
(* C09, C10, C12.  Symbolic model of the MTProto auth key exchange between     *)
(* the client flow (exchange/client_flow.go) and the in-tree server flow over  *)
(* a channel owned by an intruder.  Messages are records of symbolic fields;   *)
(* the intruder may apply one deviation from its library to any message in     *)
(* transit (or the server may be authentic but malicious in its DH            *)
(* parameters).  The client's acceptance rules are transcribed check by check. *)
(* A timing layer on top: every I/O step of the client has (or lacks) the      *)
(* per-request exchange timeout; a peer that stalls at any step.               *)
EXTENDS Integers, Sequences, FiniteSets, TLC, Json

CONSTANTS MaxDev,          \* deviations per run
          TimedSteps,      \* client I/O steps that apply the exchange timeout (1..6); the repaired client: all
          T, MaxNow

\* ---------------------------------------------------------------- protocol layer
\* deviation library, per message (M1..M6); "none" = forwarded untouched
Lib == [ M1 |-> {"nonce_flip"},
         M2 |-> {"nonce_flip", "server_nonce_flip", "fingerprint_untrusted", "pq_other", "pq_too_big", "replay_old_respq"},
         M3 |-> {"encrypted_data_flip", "p_q_swapped"},
         M4 |-> {"nonce_flip", "server_nonce_flip", "answer_flip", "answer_forged", "params_fail", "replay_old_params",
                 "dh_prime_not_prime", "dh_prime_not_safe", "dh_prime_1024", "ga_one", "ga_pm1", "ga_small", "ga_big", "ga_2p_plus1", "ga_p_plus_mid", "ga_max2048"},
         M5 |-> {"encrypted_data_flip"},
         M6 |-> {"nonce_flip", "server_nonce_flip", "hash_flip", "gen_retry", "gen_fail", "hash_of_other_key"} ]
Msgs == <<"M1", "M2", "M3", "M4", "M5", "M6">>
\* deviations that do not touch anything the client authenticates (the proof-of-work factors): the exchange still completes
Benign == {"pq_other", "p_q_swapped"}
\* deviations only an authentic server (holder of the trusted RSA key, who learns new_nonce) can realise
ServerSide == {"dh_prime_not_prime", "dh_prime_not_safe", "dh_prime_1024", "ga_one", "ga_pm1", "ga_small", "ga_big", "ga_2p_plus1", "ga_p_plus_mid", "ga_max2048"}

VARIABLES k,         \* next message to deliver (1..7, 7 = finished)
          devs,      \* sequence of [msg, dev]
          client,    \* "run" | "done" | "fail"
          server,    \* "run" | "done" | "fail"
          sameKey,   \* both sides derive the same key so far
          mode, dc,
          prime      \* the honest server's choice of DH group: the well-known 2048-bit prime or another valid safe prime
pvars == <<k, devs, client, server, sameKey, mode, dc, prime>>

\* what each side does with a (possibly deviated) message; transcribed from the flows
ClientRejects(m, d) ==
  \/ m = "M2" /\ d \in {"nonce_flip", "fingerprint_untrusted", "pq_too_big", "replay_old_respq"}
  \/ m = "M4"   \* every check on ServerDHParams: nonces, answer hash, inner nonces, CheckDH, CheckDHParams
  \/ m = "M6"
ServerRejects(m, d) ==
  \/ m = "M1" /\ FALSE                 \* a flipped nonce is simply echoed; the client notices
  \/ m = "M3" /\ d \notin Benign       \* RSA-padded data does not decrypt
  \/ m = "M5"
\* deviations that make a later message fail although the recipient of this one accepts it
LaterFailure(m, d) ==
  \/ m = "M1" /\ d = "nonce_flip"          \* ResPQ echoes the flipped nonce: client rejects M2
  \/ m = "M2" /\ d \in {"server_nonce_flip"}   \* the client answers with the wrong server nonce: server rejects M3

Deliver(d) ==
  /\ k <= 6 /\ client = "run"
  /\ LET m == Msgs[k] IN
     /\ d = "none" \/ (Len(devs) < MaxDev /\ d \in Lib[m])
     /\ devs' = IF d = "none" THEN devs ELSE Append(devs, [msg |-> m, dev |-> d])
     /\ LET toClient == m \in {"M2", "M4", "M6"}
            earlier == \E j \in 1..Len(devs) : LaterFailure(devs[j].msg, devs[j].dev)
        IN
        IF toClient
        THEN /\ client' = IF (d # "none" /\ ClientRejects(m, d)) \/ (earlier /\ m \in {"M2"}) \/ server = "fail" THEN "fail"
                          ELSE IF m = "M6" THEN "done" ELSE "run"
             /\ server' = server
        ELSE /\ server' = IF (d # "none" /\ ServerRejects(m, d)) \/ earlier THEN "fail" ELSE IF m = "M5" THEN "done" ELSE server
             /\ client' = client
     /\ sameKey' = (sameKey /\ (d = "none" \/ d \in Benign))
     /\ k' = k + 1
  /\ UNCHANGED <<mode, dc, prime>>

\* ---------------------------------------------------------------- timing layer (C12)
\* client I/O steps: 1 write M1, 2 read M2, 3 write M3, 4 read M4, 5 write M5, 6 read M6
VARIABLES tstep, now, started, stallAt, ctxDeadline, tstate
tvars == <<tstep, now, started, stallAt, ctxDeadline, tstate>>

TInit == /\ tstep = 1 /\ now = 0 /\ started = 0 /\ stallAt \in 1..6 /\ ctxDeadline \in {-1, T \div 2, 3 * T} /\ tstate = "run"
Progress == /\ tstate = "run" /\ tstep # stallAt /\ tstep <= 6
            /\ tstep' = tstep + 1 /\ started' = now
            /\ tstate' = IF tstep = 6 THEN "done" ELSE "run"
            /\ UNCHANGED <<now, stallAt, ctxDeadline>>
Expired == \/ (tstep \in TimedSteps /\ now >= started + T)
           \/ (ctxDeadline # -1 /\ now >= ctxDeadline)
Tick == /\ tstate = "run" /\ now < MaxNow /\ ~Expired
        /\ now' = now + 1 /\ UNCHANGED <<tstep, started, stallAt, ctxDeadline, tstate>>
Fire == /\ tstate = "run" /\ Expired /\ tstate' = "failed" /\ UNCHANGED <<tstep, now, started, stallAt, ctxDeadline>>

vars == <<k, devs, client, server, sameKey, mode, dc, prime, tstep, now, started, stallAt, ctxDeadline, tstate>>

Init == /\ k = 1 /\ devs = <<>> /\ client = "run" /\ server = "run" /\ sameKey = TRUE
        /\ mode \in {"perm", "temp"} /\ dc \in {2, -2, 10002} /\ prime \in {"builtin", "group14"}
        /\ TInit
Next == \/ (\E d \in {"none"} \cup UNION {Lib[Msgs[j]] : j \in 1..6} : Deliver(d)) /\ UNCHANGED tvars
        \/ (Progress \/ Tick \/ Fire) /\ UNCHANGED pvars
Spec == Init /\ [][Next]_vars

\* C09: an undisturbed exchange completes on both sides with the same key
OnlyBenign == \A j \in 1..Len(devs) : devs[j].dev \in Benign
HonestAgreement == (k = 7 /\ OnlyBenign) => (client = "done" /\ server = "done" /\ sameKey)
\* C10: the client completes only if nothing was tampered with
NoCompletionUnderAttack == client = "done" => (OnlyBenign /\ sameKey)
\* C12: a pending step never outlives the exchange timeout (or the caller's earlier deadline)
BoundedStrict == tstate = "run" => (now <= started + T /\ (ctxDeadline # -1 => now <= ctxDeadline))

\* ---------------------------------------------------------------- scripts for the real code
Strategy == [mode |-> mode, dc |-> dc, prime |-> prime, devs |-> devs, predicted |-> client]
StallCase == [kind |-> "stall", step |-> stallAt, timeout_ms |-> T * 100, ctx_deadline_ms |-> IF ctxDeadline = -1 THEN 0 ELSE ctxDeadline * 100,
              mode |-> mode, dc |-> 2, devs |-> <<>>]
\* the same stall inside a real connection: plain connect, PFS connect (permanent then temporary key), key regeneration
\* after auth_key_not_found; none of them has a caller deadline around the exchange
ConnCases == { [kind |-> "connstall", step |-> stallAt, timeout_ms |-> T * 100, pfs |-> p, exch |-> e, regen |-> r]
               : p \in BOOLEAN, e \in {1, 2}, r \in BOOLEAN } 
DumpConn == (k = 1 /\ tstep = 1 /\ now = 0 /\ dc = 2 /\ mode = "perm" /\ prime = "builtin" /\ ctxDeadline = -1 /\ stallAt \in {2, 4, 6})
            => \A cc \in {x \in ConnCases : (x.exch = 2 => x.pfs) /\ (x.regen => ~x.pfs)} : PrintT(ToJson(cc))
DumpStall == (k = 1 /\ tstep = 1 /\ now = 0 /\ dc = 2 /\ prime = "builtin") => PrintT(ToJson(StallCase))
DumpStrategy == ((k = 7 \/ client = "fail") /\ tstep = 1 /\ now = 0 /\ stallAt = 1 /\ ctxDeadline = -1) => PrintT(ToJson(Strategy))
=============================================================================
