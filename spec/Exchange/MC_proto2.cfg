CONSTANTS MaxDev = 2 TimedSteps = {1,2,3,4,5,6} T = 2 MaxNow = 8
INIT Init
NEXT Next
INVARIANTS HonestAgreement NoCompletionUnderAttack BoundedStrict
CONSTRAINTS DumpStrategy DumpStall DumpConn
CHECK_DEADLOCK FALSE
