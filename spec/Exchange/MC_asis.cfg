CONSTANTS MaxDev = 1 TimedSteps = {1,2,3,5} T = 2 MaxNow = 8
INIT Init
NEXT Next
INVARIANTS HonestAgreement NoCompletionUnderAttack BoundedStrict
CONSTRAINTS DumpStrategy DumpStall DumpConn
CHECK_DEADLOCK FALSE
