"""C27, C28 — pool.DC: limit / exclusivity / no dead hand-out; no lost capacity."""
import os, json
import vlib
from vlib import log
from c_rpc import maximal_runs

SPEC = os.path.join(vlib.VERIF, "spec", "Pool")


def sig_of(bad):
    return "pool:" + bad.get("ev", "?")


def run(pid, replay=None):
    thorough = vlib.tier() == "thorough"
    V = vlib.Verdict(pid)
    work = vlib.outdir(pid, "work", clean=True)
    mc = None
    if replay:
        case = json.load(open(replay))["case"]
        behs = [case["case"]]
        free_n = 0
    else:
        cfg = "MC_fixed.cfg" if thorough else "MC_quick.cfg"
        mc = vlib.run_tlc(pid, "mc", SPEC, "Pool", cfg, timeout=3000, cache=True)
        if not os.environ.get("VERIF_DEV_SKIP_MC"):
            vlib.tlc_must_pass(mc, "Pool " + cfg)
        log("Pool %s: %d generated / %d distinct states, %.1fs" % (cfg, mc.generated, mc.distinct, mc.wall))
        # directed behaviours: the schedules that break a property when one of the repairs is missing, from the
        # current model (so they follow every refinement of it), a few per disabled repair, shortest first
        directed = []
        for k in range(1, 7):
            sink = []
            cfgk = "MC_off%d.cfg" % k if k < 6 else "MC_try.cfg"   # 6: attempted entries while release holds c.mu
            r = vlib.run_tlc(pid, "off%d" % k, SPEC, "Pool", cfgk, timeout=1800, line_sink=sink.append)
            if r.timeout or not sink:
                raise vlib.Infra("Pool %s printed no schedule: %s" % (cfgk, r.raw[-600:]))
            pick = sink[:4] + [sink[int(j * len(sink) / 5.0)] for j in range(1, 5)]
            directed += [{"hist": d["hist"], "max": d["max"], "violates": d["violates"], "fixoff": k} for d in pick]
        n = 1500 if thorough else 200
        behs = [{"hist": d["hist"], "max": d.get("max", 1)} for d in directed]
        for mx in (1, 2):
            s = vlib.run_tlc(pid, "sim%d" % mx, SPEC, "Pool", "Sim%d.cfg" % mx, workers=1, timeout=900,
                             simulate="num=%d" % n, depth=60, seed_=vlib.seed())
            if s.timeout or not s.lines:
                raise vlib.Infra("simulate failed: " + s.raw[-800:])
            behs += [{"hist": h, "max": mx} for h in maximal_runs(s.lines)]
        log("behaviours: %d directed (TLC counterexamples of the unrepaired model) + %d simulated" % (len(directed), len(behs) - len(directed)))
        free_n = 2000 if thorough else 200
    binp = vlib.build_driver(pid, "pooldrv")
    bf = os.path.join(work, "behs.ndjson")
    vlib.write_ndjson(bf, behs)
    kinds = []
    reps = 1 if replay else (3 if thorough else 2)
    for rep in range(reps):
        tf = os.path.join(work, "sched.trace.%d.ndjson" % rep)
        vlib.run_driver(binp, ["-mode", "sched", "-in", bf, "-out", tf], timeout=3000)
        kinds.append(("sched", tf, behs))
    if free_n:
        ff = os.path.join(work, "free.trace.ndjson")
        vlib.run_driver(binp, ["-mode", "free", "-n", str(free_n), "-seed", str(vlib.seed()), "-out", ff], timeout=3000)
        kinds.append(("free", ff, None))
    acc = jst = jtr = 0
    samples = []
    for kind, tf, cases in kinds:
        a, rej, s1, s2 = vlib.judge_traces(pid, kind, SPEC, "PoolProp", "Prop_%s.cfg" % pid, tf, timeout=1200)
        acc += a
        jst += s1
        jtr += s2
        for tno, line in rej:
            t = vlib.extract_trace(tf, tno)
            with open(tf) as f:
                bad = json.loads(f.readlines()[line])
            V.violation(sig_of(bad), "real pool.DC trace (%s) rejected by PoolProp[%s] at event %s" % (kind, pid, json.dumps(bad)),
                        {"kind": kind, "case": cases[tno] if cases else {"hist": []}, "trace": t, "rejected_event": bad})
        if not samples:
            samples.append({"kind": kind, "behaviour": (cases[0] if cases else None), "trace": vlib.extract_trace(tf, 0)})
    distinct = len({json.dumps(b, sort_keys=True) for b in behs})
    cov = {
        "states": (mc.distinct if mc else 0) + jst or 1,
        "transitions": (mc.generated if mc else 0) + jtr or 1,
        "traces_validated_against_impl": acc,
        "samples": samples,
        "evaluations": len(behs) * reps + free_n,
        "distinct_nontrivial": distinct,
        "rule": "distinct TLC behaviours of Pool.tla (schedules that break a property when one of the five repairs is switched off, regenerated from the current model; -simulate with max 1 and 2, 3 callers, cancellation, "
                "connection death) replayed with gates, each %d times, every trace ending with a drain and a fresh-caller probe; plus seeded free-running traces" % reps,
        "model_states_exhaustive": mc.distinct if mc else 0,
        "exhaustive": False,
    }
    return V.finish("model_checking", cov, [
        "PoolProp.tla (guards of %s only) is the verdict oracle" % pid,
        "a connection is live until its Run returned or an Invoke on it returned ErrConnDead",
        "dead hand-out is judged on schedule-controlled traces only (decision points are not lock protected)",
        "lost capacity is observed through end-of-trace probes: drained callers must have finished and a fresh caller must be served"])
