"""C31 — session file updates are atomic with respect to crashes.
(1) record the system-call trace of the real FileStorage.StoreSession with strace;
(2) TLC runs SessionFile.tla (file-system model) over that recorded program with a crash at every point
    (process crash, crash inside a write, power loss) and emits every post-crash image of the session file;
(3) every image is materialised and loaded by the real session.Loader (must be the old or the new session);
(4) process crashes are also realised for real: for every relevant system call k the storing process is
    killed by strace fault injection on entry to call k and a fresh process loads what is on disk."""
import os, re, json, subprocess, shutil
import vlib
from vlib import log

SPEC = os.path.join(vlib.VERIF, "spec", "SessionFile")
SYSCALLS = "openat,write,fsync,fdatasync,rename,renameat,renameat2,close,unlinkat,unlink,fchmod,fchmodat,ftruncate,pwrite64,writev"
LINE = re.compile(r"^(\d+)\s+(\w+)\((.*)\)\s+=\s+(-?\d+|\?)")


def strace(args, out, env=None, extra=None):
    e = vlib.goenv()
    e["GOMAXPROCS"] = "1"
    cmd = ["strace", "-f", "-o", out, "-e", "trace=" + SYSCALLS] + (extra or []) + args
    p = subprocess.run(cmd, env=e, stdout=subprocess.PIPE, stderr=subprocess.PIPE, text=True, timeout=120)
    return p


def parse(tracefile, d):
    """-> (ops, rel) ops for the model; rel = list of (pid, syscall name, index among that pid's calls of that name)"""
    ops, rel = [], []
    fdkind = {}   # (pid-agnostic) fd -> "P"/"T"/"D"
    counts = {}
    P = os.path.join(d, "s.json")
    for line in open(tracefile, errors="replace"):
        m = LINE.match(line)
        if not m:
            continue
        pid, name, args, ret = m.group(1), m.group(2), m.group(3), m.group(4)
        counts[(pid, name)] = counts.get((pid, name), 0) + 1
        idx = counts[(pid, name)]
        def path_kind(s):
            if s == P:
                return "P"
            if s.startswith(d + "/"):
                return "T"
            if s == d:
                return "D"
            return None
        op = None
        if name == "openat":
            pm = re.search(r'"([^"]*)"', args)
            if pm and path_kind(pm.group(1)) and ret not in ("?",) and int(ret) >= 0:
                k = path_kind(pm.group(1))
                fdkind[int(ret)] = k
                if k == "D":
                    op = {"op": "opendir", "fd": int(ret)}
                else:
                    op = {"op": "open", "path": k, "fd": int(ret), "trunc": "O_TRUNC" in args, "creat": "O_CREAT" in args}
        elif name in ("write", "pwrite64", "writev"):
            fd = int(args.split(",")[0])
            if fdkind.get(fd) in ("P", "T"):
                op = {"op": "write", "fd": fd, "n": int(ret) if ret != "?" else 0}
        elif name in ("fsync", "fdatasync"):
            fd = int(args.split(",")[0])
            if fdkind.get(fd) in ("P", "T"):
                op = {"op": "fsync", "fd": fd}
            elif fdkind.get(fd) == "D":
                op = {"op": "fsyncdir", "fd": fd}
        elif name == "close":
            fd = int(args.split(",")[0])
            if fd in fdkind:
                op = {"op": "close", "fd": fd}
                del fdkind[fd]
        elif name in ("rename", "renameat", "renameat2"):
            ps = re.findall(r'"([^"]*)"', args)
            if len(ps) >= 2 and path_kind(ps[0]) and path_kind(ps[1]):
                op = {"op": "rename", "src": path_kind(ps[0]), "dst": path_kind(ps[1])}
        elif name in ("unlink", "unlinkat"):
            pm = re.search(r'"([^"]*)"', args)
            if pm and path_kind(pm.group(1)) in ("P", "T"):
                op = {"op": "unlink", "path": path_kind(pm.group(1))}
        elif name in ("fchmod", "ftruncate"):
            fd = int(args.split(",")[0])
            if fdkind.get(fd) in ("P", "T"):
                op = {"op": name, "fd": fd}
        if op:
            ops.append(op)
            rel.append((pid, name, idx, line.strip()[:160]))
    return ops, rel


def run(pid, replay=None):
    thorough = vlib.tier() == "thorough"
    V = vlib.Verdict(pid)
    binp = vlib.build_driver(pid, "sessdrv")
    tot = {"evals": 0, "kills": 0, "cases": 0, "states": 0, "transitions": 0, "inv": True}
    samples = []
    # two save scenarios: the new session encodes to a different / to exactly the same length as the file it replaces
    for scen in ("diff", "same"):
        os.environ["SESS_SCENARIO"] = scen
        work = vlib.outdir(pid, "work_" + scen, clean=True)
        ev, ki, cases, ops, r, inv = scenario(pid, V, work, binp, scen)
        tot["evals"] += ev; tot["kills"] += ki; tot["cases"] += len(cases)
        tot["states"] += r.distinct; tot["transitions"] += r.generated; tot["inv"] = tot["inv"] and bool(inv.ok)
        samples += [{"scenario": scen, "program": ops}, {"scenario": scen, "image": cases[0]}, {"scenario": scen, "image": cases[-1]}]
    os.environ.pop("SESS_SCENARIO", None)
    cov = {"evaluations": tot["evals"] + tot["kills"], "distinct_nontrivial": tot["cases"] + tot["kills"],
           "rule": "two scenarios (new session of different / of the same encoded length as the old file); post-crash images = distinct (crash kind, file content) pairs reachable in the file-system model from the recorded system-call trace of the real "
                   "save (process crash between calls, inside a write, power loss with un-synced data/rename); plus one real SIGKILL injection per recorded system call",
           "samples": samples[:4],
           "states": tot["states"], "transitions": tot["transitions"], "model_invariant_holds": tot["inv"], "exhaustive": True}
    return V.finish("fault_enumeration", cov, [
        "file-system model: page cache survives a process crash; on power loss data since the last fsync of the file and renames since the last directory fsync may be lost",
        "the recorded program is deterministic (GOMAXPROCS=1, main thread locked)", "strace fault injection kills on entry to the selected call"])


def scenario(pid, V, work, binp, scen):
    d = os.path.join(work, "fs")
    os.makedirs(d)
    P = os.path.join(d, "s.json")
    lens = json.loads(subprocess.run([binp, "lens"], capture_output=True, text=True).stdout)
    # (1) record
    subprocess.run([binp, "init", P], check=True)
    tf = os.path.join(work, "strace.txt")
    p = strace([binp, "store", P], tf)
    if p.returncode != 0:
        raise vlib.Infra("recording run failed: " + p.stderr[-500:])
    ops, rel = parse(tf, d)
    if not any(o["op"] == "write" for o in ops):
        raise vlib.Infra("no write to the session file in the recorded trace")
    log("recorded program (%d system calls on the session file): %s" % (len(ops), " ".join(
        o["op"] + (":" + o.get("path", "") if o["op"] == "open" else "") for o in ops)))
    opsf = os.path.join(work, "ops.ndjson")
    vlib.write_ndjson(opsf, [{"op": "header", "newlen": lens["new"], "oldlen": lens["old"]}] + ops)
    # (2) model over the recorded program
    r = vlib.run_tlc(pid, "fs", SPEC, "SessionFile", "SessionFile.cfg", workers=1, timeout=600, env={"OPS_FILE": opsf})
    vlib.tlc_must_pass(r, "SessionFile over the recorded trace")
    inv = vlib.run_tlc(pid, "fsinv", SPEC, "SessionFile", "SessionFile_inv.cfg", workers=1, timeout=600, env={"OPS_FILE": opsf})
    log("SessionFile: %d states; invariant OldOrNew on the recorded program: %s" % (r.distinct, "holds" if inv.ok else "VIOLATED (%s)" % inv.violation))
    imgs = {}
    for c in r.lines:
        imgs.setdefault(json.dumps([c["crash"], c["img"]], sort_keys=True), c)
    cases = list(imgs.values())
    # (3) every image through the real Loader
    cf = os.path.join(work, "images.ndjson")
    rf = os.path.join(work, "images.results.ndjson")
    vlib.write_ndjson(cf, cases)
    vlib.run_driver(binp, ["images", d, cf, rf])
    evals = 0
    for res in vlib.read_ndjson(rf):
        c = cases[res["case"]]
        evals += 1
        if not res["got"].get("ok"):
            V.violation("crash:%s:%s:%s" % (scen, c["crash"], c["img"]["kind"]),
                        "after a %s crash at system call %d of the recorded save the session file can hold %s; the real Loader returns %s" % (
                            c["crash"], c["at"], json.dumps(c["img"]), json.dumps(res["got"])),
                        {"case": c, "got": res["got"], "program": ops})
    # (4) real process crashes by fault injection at every relevant system call
    kills = 0
    targets = [(k, x) for k, x in enumerate(rel) if x[1] not in ("close",)]
    for k, (tp, name, idx, text) in targets:
        if os.path.exists(d):
            for f in os.listdir(d):
                os.remove(os.path.join(d, f))
        subprocess.run([binp, "init", P], check=True)
        kt = os.path.join(work, "kill%d.txt" % k)
        strace([binp, "store", P], kt, extra=["-e", "inject=%s:signal=KILL:when=%d" % (name, idx)])
        killed = "killed by SIGKILL" in open(kt, errors="replace").read()
        if not killed:
            raise vlib.Infra("fault injection at call %d (%s #%d) did not kill the process" % (k, name, idx))
        kops, _ = parse(kt, d)
        # the kill happens on entry to the k-th relevant call: k calls completed (k+1 lines appear, last unfinished/killed)
        res = json.loads(subprocess.run([binp, "load", P], capture_output=True, text=True).stdout)
        kills += 1
        if not res.get("ok"):
            V.violation("kill:before:%s" % ops[k]["op"] if k < len(ops) else "kill",
                        "process killed on entry to system call %d (%s) of the save: the next start loads %s" % (k, text, json.dumps(res)),
                        {"kill_at": k, "syscall": text, "got": res, "program": ops})
    log("[%s] %d post-crash images loaded by the real Loader; %d real kill injections" % (scen, evals, kills))
    return evals, kills, cases, ops, r, inv
