"""C08 — outgoing message ids unique, increasing, client typed; seqno arithmetic (generator level here,
connection level through the conn driver when available)."""
import os, json
import vlib
from vlib import log
from c_rpc import maximal_runs

SPEC = os.path.join(vlib.VERIF, "spec", "MsgLayer")


def run(pid, replay=None):
    thorough = vlib.tier() == "thorough"
    V = vlib.Verdict(pid)
    work = vlib.outdir(pid, "work", clean=True)
    mc = e = None
    if replay:
        case = json.load(open(replay))["case"]
        edges = [case["case"]] if case["kind"] == "edges" else []
        paths = [case["case"]] if case["kind"] == "paths" else []
    else:
        mc = vlib.tlc_must_pass(vlib.run_tlc(pid, "mc", SPEC, "MsgIdGen", "MsgIdGen_mc.cfg", timeout=900), "MsgIdGen mc")
        e = vlib.tlc_must_pass(vlib.run_tlc(pid, "edges", SPEC, "MsgIdGen", "MsgIdGen_edges.cfg", timeout=900), "MsgIdGen edges")
        seen = {}
        for ed in e.lines:
            seen.setdefault(json.dumps([ed["from"]["g"], ed["from"]["clk"], ed["d"]]), ed)
        edges = list(seen.values())
        s = vlib.run_tlc(pid, "sim", SPEC, "MsgIdGen", "MsgIdGen_sim.cfg", workers=1, timeout=600,
                         simulate="num=%d" % (3000 if thorough else 300), depth=13, seed_=vlib.seed())
        paths = [{"start": 999999000, "hist": h} for h in maximal_runs(s.lines)]
        log("MsgIdGen: %d distinct states; %d distinct edges; %d simulated clock behaviours" % (mc.distinct, len(edges), len(paths)))
    binp = vlib.build_driver(pid, "msgid")
    acc = jst = jtr = 0
    samples = []
    for kind, cases in (("edges", edges), ("paths", paths)):
        if not cases:
            continue
        cf = os.path.join(work, kind + ".ndjson")
        tf = os.path.join(work, kind + ".trace.ndjson")
        vlib.write_ndjson(cf, cases)
        vlib.run_driver(binp, ["-mode", kind, "-in", cf, "-out", tf])
        a, rej, s1, s2 = vlib.judge_traces(pid, kind, SPEC, "MsgIdProp", "MsgIdProp.cfg", tf)
        acc += a; jst += s1; jtr += s2
        for tno, line in rej:
            t = vlib.extract_trace(tf, tno)
            bad = json.loads(open(tf).readlines()[line])
            prev = t[-2] if len(t) > 1 else {}
            what = "duplicate-or-decreasing-id" if bad.get("t", 0) <= prev.get("t", -1) else "id-time-or-type"
            V.violation("msgid:" + what, "real MessageIDGen trace rejected by MsgIdProp at %s (previous %s)" % (json.dumps(bad), json.dumps(prev)),
                        {"kind": kind, "case": cases[tno], "trace": t, "rejected_event": bad})
        samples.append({"kind": kind, "case": cases[0], "trace": vlib.extract_trace(tf, 0)})
    # connection level: msg id / seqno of every frame a real mtproto.Conn writes (requests, service messages, retries)
    import c_conn
    extra = c_conn.run_part(pid, V, work, replay)
    acc += extra.get("traces", 0)
    samples += extra.get("samples", [])
    cov = {"states": (mc.distinct if mc else 0) + (e.distinct if e else 0) + jst or 1,
           "transitions": (mc.generated if mc else 0) + (e.generated if e else 0) + jtr or 1,
           "traces_validated_against_impl": acc, "samples": samples,
           "evaluations": len(edges) + len(paths) + extra.get("evaluations", 0), "distinct_nontrivial": len(edges) + len(paths) + extra.get("distinct", 0),
           "rule": "edges: distinct (generator nano, clock, delta) triples of the exhaustively explored MsgIdGen graph (3 calls, 14 clock deltas incl. "
                   "freeze, +1..3 ns, backward jumps, second rollover); paths: TLC -simulate clock behaviours of 12 calls; connection level: Salts scripts (requests, pings, acks, salt requests, "
                   "bad-salt retries, clock advances) and MsgSeq.tla attempted schedules (2-3 concurrent content / service senders, each parked inside the id source and released in "
                   "every order) on a real mtproto.Conn; ids unique and client-typed per frame, seqno arithmetic in id order at the end of each case (ConnProp, Check=C08)",
           "exhaustive": not replay}
    return V.finish("model_checking", cov, ["MsgIdProp.tla is the verdict oracle", "times relative to a whole-second base"])
