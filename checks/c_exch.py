"""C09, C10, C12: auth key exchange.  GEN: TLC explores Exchange.tla (protocol layer with a one/two-deviation intruder and
a malicious authentic server, timing layer with a peer stalling at any step) and checks agreement, no completion under
attack and bounded steps; it prints every strategy with the predicted client outcome and every stall case.
DRIVE: harness/cmd/exchdrv runs the real client flow against the real in-tree server flow through a man in the middle
that realises the strategy on the wire (random keys, nonces, bit positions per run).  The observed outcome is compared
with the spec's prediction."""
import os, json, subprocess, concurrent.futures
import vlib
from vlib import log

SPEC = os.path.join(vlib.VERIF, "spec", "Exchange")


def gen(pid, thorough):
    cfg = "MC_proto2.cfg" if (thorough and pid == "C10") else "MC_proto.cfg"
    sink = []
    r = vlib.run_tlc(pid, "mc", SPEC, "Exchange", cfg, timeout=2400, line_sink=sink.append)
    vlib.tlc_must_pass(r, "Exchange " + cfg)
    log("Exchange %s: %d generated / %d distinct states, %.1fs, %d strategies/cases" % (cfg, r.generated, r.distinct, r.wall, len(sink)))
    return sink, r


def drive(pid, binp, cases, reps, work, nproc=8):
    """Runs the driver in nproc parallel processes over slices of the case list; returns results with global case index."""
    chunks = [[] for _ in range(nproc)]
    for i, c in enumerate(cases):
        chunks[i % nproc].append((i, c))
    def one(k):
        if not chunks[k]:
            return []
        cf = os.path.join(work, "cases%d.ndjson" % k)
        rf = os.path.join(work, "res%d.ndjson" % k)
        vlib.write_ndjson(cf, [c for _, c in chunks[k]])
        vlib.run_driver(binp, ["-in", cf, "-out", rf, "-reps", str(reps), "-seed", str(vlib.seed() * 1000 + k)], timeout=3000)
        out = []
        for r in vlib.read_ndjson(rf):
            r["case"] = chunks[k][r["case"]][0]
            out.append(r)
        return out
    res = []
    with concurrent.futures.ThreadPoolExecutor(nproc) as ex:
        for part in ex.map(one, range(nproc)):
            res += part
    return res


def run(pid, replay=None):
    thorough = vlib.tier() == "thorough"
    V = vlib.Verdict(pid)
    work = vlib.outdir(pid, "work", clean=True)
    mc = None
    if replay:
        allc = [json.load(open(replay))["case"]["case"]]
    else:
        allc, mc = gen(pid, thorough)
    strategies = [c for c in allc if c.get("kind") not in ("stall", "connstall")]
    stalls = [c for c in allc if c.get("kind") in ("stall", "connstall")]
    binp = vlib.build_driver(pid, "exchdrv")
    if pid == "C09":
        cases = [c for c in strategies if not c["devs"]] or strategies
        reps = 400 if thorough else 60
        if not replay:
            # data classes of the random streams are rare (a shared secret with a leading zero byte: about 1 exchange in
            # 200-256): the honest cases are run twice over, in 16 driver processes with different seeds
            cases = [dict(c) for c in cases] + [dict(c) for c in cases]
        for c in cases:
            c["expect"] = {"client": "done", "server": "done", "same_key": True, "same_salt": True, "key_nonzero": True}
    elif pid == "C10":
        cases = [c for c in strategies if c["devs"]] or strategies
        if not thorough and not replay:
            # every deviation once per (mode, dc) rotation instead of the full product
            seen, sel = set(), []
            for i, c in enumerate(sorted(cases, key=lambda c: json.dumps(c["devs"]))):
                k = json.dumps(c["devs"])
                if k not in seen and (len(seen) + (0 if c["mode"] == "perm" else 1) + c["dc"]) % 1 == 0:
                    seen.add(k)
                    sel.append(c)
            rot = [("perm", 2), ("temp", -2), ("perm", 10002), ("temp", 2)]
            for i, c in enumerate(sel):
                c["mode"], c["dc"] = rot[i % 4]
                c["prime"] = ("builtin", "group14")[(i // 4) % 2]
            cases = sel
        reps = 3 if thorough else 2
        for c in cases:
            c["expect"] = {"client": c["predicted"]}
            if c["predicted"] == "done":
                c["expect"].update({"same_key": True, "key_nonzero": True})
    else:  # C12
        cases = stalls if not replay else allc
        reps = 3 if thorough else 1
        for c in cases:
            c["expect"] = {"returned": True, "failed": True, "within_margin": True}
    if not cases:
        raise vlib.Infra("no cases for %s" % pid)
    res = drive(pid, binp, cases, reps, work, nproc=16 if pid == "C09" else 8)
    if len(res) < len(cases) * reps:
        raise vlib.Infra("exchdrv produced %d results for %d cases x %d" % (len(res), len(cases), reps))
    for r in res:
        c = cases[r["case"]]
        d = vlib.compare_expect(c["expect"], r["got"])
        if d and r["got"].get("client") == "stuck" and c.get("kind") not in ("stall", "connstall") and not replay:
            # "stuck" is a wall-clock verdict (no return within the exchange timeout plus a margin): on a loaded machine the
            # CPU-bound parameter checks alone can take that long.  It counts only if it happens again when the case runs alone.
            w2 = vlib.outdir(pid, "recheck", clean=True)
            again = drive(pid, binp, [c], 3, w2, nproc=1)
            bad = [x for x in again if vlib.compare_expect(c["expect"], x["got"])]
            if not bad:
                log("%s: a slow exchange (%s) was not reproduced in 3 solitary runs: ignored" % (pid, json.dumps(r["got"])))
                continue
            r = dict(bad[0], case=r["case"])
            d = vlib.compare_expect(c["expect"], r["got"])
        if d:
            what = (c.get("kind") == "connstall" and "connstall:step%d:exch%d:pfs%s:regen%s" % (c["step"], c["exch"], c["pfs"], c["regen"])) or \
                   (c.get("kind") == "stall" and ("stall:step%d:ctx%d:%s" % (c["step"], c["ctx_deadline_ms"], c["mode"]))) or \
                   ("strategy:" + ",".join("%s.%s" % (x["msg"], x["dev"]) for x in c["devs"]) or "honest")
            V.violation("exch:%s:%s" % (pid, what), "real exchange differs from the specification: case=%s got=%s" % (
                json.dumps({k: v for k, v in c.items() if k != "expect"}), json.dumps(r["got"])),
                        {"kind": "exch", "case": {k: v for k, v in c.items() if k != "expect"}, "got": r["got"], "diffs": d})
    distinct = len({json.dumps({k: v for k, v in c.items() if k != "expect"}, sort_keys=True) for c in cases})
    log("%s: %d cases x %d runs = %d exchanges against the real client and server flows" % (pid, len(cases), reps, len(res)))
    cov = {"states": mc.distinct if mc else 1, "transitions": mc.generated if mc else 1,
           "traces_validated_against_impl": len(res),
           "evaluations": len(res), "distinct_nontrivial": distinct,
           "rule": "cases = strategies (mode, dc, honest DH group, deviation list) / stall cases (step, caller deadline) printed by TLC from the exhaustively explored "
                   "Exchange.tla; each run end to end on the real client and server flows with fresh random keys, nonces and bit positions",
           "samples": [{"case": {k: v for k, v in cases[0].items()}, "observed": res[0]["got"]},
                       {"case": {k: v for k, v in cases[-1].items()}, "observed": res[-1]["got"]}],
           "exhaustive": False}
    return V.finish("model_checking", cov, [
        "Exchange.tla is a symbolic model: fields are equal or different, crypto is perfect; the prediction is the oracle",
        "the deviation library is the bounded adversary; the in-tree server flow is the honest server",
        "C12: wall-clock classification, exchange timeout 200 ms, a run counts as bounded when it returns within timeout + 3 s"])
