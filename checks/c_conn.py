"""Connection-level checks on a real mtproto.Conn (harness/cmd/conndrv): C41 (Salts.tla), C43 (Ping.tla),
C23 (Dispatch.tla).  GEN: TLC explores the implementation-shaped model (its own invariants = design half) and
prints scripts (one per distinct state at the step bound, plus -simulate).  DRIVE: conndrv replays each script on
the real connection with a scripted server (fake transport and clock, real crypto).  JUDGE: TLC validates the
recorded traces against ConnProp.tla with Check = <property>."""
import os, json, subprocess
import vlib
from vlib import log

SPEC = os.path.join(vlib.VERIF, "spec", "Conn")

PLAN = {
    "C43": {"module": "Ping", "mc": ["Ping_mc.cfg"], "sim": [("Ping_sim.cfg", 13, 60, 600)]},
    "C41": {"module": "Salts", "mc": ["Salts_mc.cfg"], "sim": [("Salts_sim.cfg", 15, 150, 2000)]},
    "C23": {"module": "Dispatch", "mc": ["Dispatch_mc.cfg", "Dispatch_cancel.cfg"], "mc_thorough": ["Dispatch_deep.cfg"],
            "sim": [("Dispatch_sim.cfg", 5, 100, 1500)]},
}
CAP = {"quick": 1200, "thorough": 12000}


def gen(pid, thorough):
    plan = PLAN[pid]
    scripts = []
    st = {"states": 0, "transitions": 0}
    mcs = [(plan["module"], cfg) for cfg in plan["mc"] + (plan.get("mc_thorough", []) if thorough else [])] + plan.get("extra_mc", [])
    for module, cfg in mcs:
        sink = []
        r = vlib.run_tlc(pid, "mc_" + cfg[:-4], SPEC, module, cfg, timeout=1800, line_sink=sink.append)
        vlib.tlc_must_pass(r, "%s %s" % (module, cfg))
        st["states"] += r.distinct
        st["transitions"] += r.generated
        cap = CAP["thorough" if thorough else "quick"]
        total = len(sink)
        if len(sink) > cap:
            step = len(sink) / float(cap)
            sink = [sink[int(k * step)] for k in range(cap)]
        log("%s %s: %d generated / %d distinct states, %.1fs, %d scripts (%d kept)" % (module, cfg, r.generated, r.distinct, r.wall, total, len(sink)))
        scripts += sink
    for cfg, depth, nq, nt in plan["sim"]:
        n = nt if thorough else nq
        s = vlib.run_tlc(pid, "sim_" + cfg[:-4], SPEC, plan["module"], cfg, workers=1, timeout=1200,
                         simulate="num=%d" % n, depth=depth, seed_=vlib.seed())
        if s.timeout or s.violation or (not s.ok and not s.lines):
            raise vlib.Infra("simulate %s failed (violation=%s): %s" % (cfg, s.violation, s.raw[-1500:]))
        scripts += s.lines
        log("simulate %s: %d scripts" % (cfg, len(s.lines)))
    return scripts, st


def stress_scripts(pid, thorough):
    """Free-running supplement (not from a TLC schedule): a concurrent writer runs while bad_server_salt is delivered."""
    if pid != "C41":
        return []
    out = []
    base = [{"op": "srv", "msg": {"t": "salts", "list": [[0, 5200, 104], [0, 2000, 103]]}}]
    for r in range(1000 if thorough else 200):   # the known race took about 1 retry in 1000; three retries per script
        steps = list(base)
        for k in (1, 2, 3):
            steps += [{"op": "invoke", "k": k}, {"op": "spam", "on": True},
                      {"op": "srv", "msg": {"t": "badsalt", "of": k, "salt": 21 + (k % 2)}},
                      {"op": "spam", "on": False},
                      {"op": "srv", "msg": {"t": "result", "of": k, "body": {"t": "res", "tag": k}}},
                      {"op": "srv", "msg": {"t": "salts", "list": [[0, 5200, 104], [0, 2000, 103]]}}]
        out.append({"cfg": "salts-stress", "salt0": 11, "pingInterval": 100000000, "retryInterval": 100000000, "steps": steps})
    return out


def drive(pid, binp, scripts, work, V):
    """Runs conndrv; a crash of the driver process caused by a panic inside the library is a real-code behaviour:
    reported (C23: violation; others: infrastructure failure) and the remaining scripts are run in a new process."""
    traces = []
    start = 0
    part = 0
    panics = 0
    while start < len(scripts):
        part += 1
        cf = os.path.join(work, "scripts%d.ndjson" % part)
        tf = os.path.join(work, "trace%d.ndjson" % part)
        vlib.write_ndjson(cf, scripts[start:])
        p = vlib.run_driver(binp, ["-in", cf, "-out", tf, "-seed", str(vlib.seed())], timeout=3000, ok_codes=(0, 1, 2))
        if p.returncode == 0:
            traces.append((tf, start))
            break
        # died: find the script it died in
        n = 0
        if os.path.exists(tf):
            with open(tf) as f:
                n = sum(1 for l in f if '"ev":"reset"' in l)
        bad = start + max(n - 1, 0)
        msg = p.stderr[-3000:]
        if "panic:" in msg or "fatal error:" in msg:
            if pid == "C23":
                first = [l for l in msg.splitlines() if l.startswith("panic:") or l.startswith("fatal error:")]
                V.violation("conn:C23:panic", "the connection panicked while handling a server payload: %s" % (first[:1] or [""])[0],
                            {"kind": "conn", "case": scripts[bad], "stderr": msg[-1500:]})
                panics += 1
                if panics >= 5:
                    log("conn %s: the driver process was killed by a panic inside the library %d times; the remaining %d scripts are not run" % (
                        pid, panics, len(scripts) - bad - 1))
                    break
            else:
                raise vlib.Infra("conndrv died in script %d: %s" % (bad, msg[-1500:]))
        else:
            raise vlib.Infra("conndrv died rc=%d in script %d: %s" % (p.returncode, bad, msg[-1500:]))
        # keep the complete traces before the crash
        if n > 1:
            with open(tf) as f:
                lines = f.readlines()
            cut = max(i for i, l in enumerate(lines) if '"ev":"reset"' in l)
            with open(tf, "w") as f:
                f.writelines(lines[:cut])
            traces.append((tf, start))
        start = bad + 1
    return traces


PLAN["C08"] = {"module": "Salts", "mc": [], "sim": [("Salts_sim.cfg", 15, 150, 1500)],
               # id allocation / seqno counter as one critical section: attempted schedules through the id source
               "extra_mc": [("MsgSeq", "MsgSeq_mc.cfg")]}
PLAN["C07"] = {"module": "MsgHdr", "mc": ["MsgHdr_mc.cfg"], "sim": [("MsgHdr_sim.cfg", 7, 100, 1500)]}


def run_part(pid, V, work, replay=None):
    """Connection-level part for checks whose main module lives elsewhere (C07): scripts from the model in PLAN[pid],
    driven on the real connection and judged by ConnProp (Check=pid).  Returns counts for the caller's evidence."""
    thorough = vlib.tier() == "thorough"
    if replay:
        rc = json.load(open(replay))["case"]
        if rc.get("kind") != "conn":
            return {}
        scripts = [rc["case"]]
        st = {"states": 0, "transitions": 0}
    else:
        scripts, st = gen(pid, thorough)
    binp = vlib.build_driver(pid, "conndrv")
    w2 = vlib.outdir(pid, "connwork", clean=True)
    traces = drive(pid, binp, scripts, w2, V)
    acc = nrej = 0
    sample = None
    for tf, base in traces:
        a, rej, s1, t1 = vlib.judge_traces(pid, "conn%d" % base, SPEC, "ConnProp", "Prop_%s.cfg" % pid, tf, timeout=2400, max_viol=5)
        acc += a
        nrej += len(rej)
        with open(tf) as f:
            lines = f.readlines()
        for tno, line in rej:
            t = vlib.extract_trace(tf, tno)
            bad = json.loads(lines[line])
            V.violation(sig_of(pid, bad), "real connection trace rejected by ConnProp (Check=%s) at event %s" % (pid, json.dumps(bad)[:300]),
                        {"kind": "conn", "case": scripts[base + tno], "rejected_event": bad, "trace": t})
        if sample is None and a:
            sample = {"script": scripts[base]["steps"][:8], "trace": vlib.extract_trace(tf, 0)[:20]}
    distinct = len({json.dumps(s["steps"], sort_keys=True) for s in scripts})
    log("conn part %s: %d scripts (%d distinct), %d traces accepted, %d rejected" % (pid, len(scripts), distinct, acc, nrej))
    return {"traces": acc + nrej, "samples": [sample] if sample else [], "evaluations": len(scripts), "distinct": distinct,
            "states": st["states"], "transitions": st["transitions"],
            "rule": "" if pid != "C07" else "; connection level: header variants (session, key, id type, creation time offset, padding class, replay of an accepted id) "
                    "of otherwise valid encrypted messages delivered to a real mtproto.Conn, one script per model state + simulated sequences"}


def sig_of(pid, bad):
    ev = bad.get("ev")
    extra = ""
    if ev in ("done", "pingdone", "runend"):
        extra = ":" + str(bad.get("res", "")).split(":")[0]
    elif ev == "sent":
        extra = ":" + str(bad.get("type"))
    return "conn:%s:%s%s" % (pid, ev, extra)


def run(pid, replay=None):
    thorough = vlib.tier() == "thorough"
    V = vlib.Verdict(pid)
    work = vlib.outdir(pid, "work", clean=True)
    if replay:
        scripts = [json.load(open(replay))["case"]["case"]]
        st = {"states": 0, "transitions": 0}
    else:
        scripts, st = gen(pid, thorough)
        scripts += stress_scripts(pid, thorough)
    binp = vlib.build_driver(pid, "conndrv")
    traces = drive(pid, binp, scripts, work, V)
    acc = 0
    nrej = 0
    jst = jtr = 0
    sample = None
    for tf, base in traces:
        a, rej, s1, t1 = vlib.judge_traces(pid, "conn%d" % base, SPEC, "ConnProp", "Prop_%s.cfg" % pid, tf, timeout=2400, max_viol=5)
        acc += a
        jst += s1
        jtr += t1
        nrej += len(rej)
        with open(tf) as f:
            lines = f.readlines()
        for tno, line in rej:
            t = vlib.extract_trace(tf, tno)
            bad = json.loads(lines[line])
            V.violation(sig_of(pid, bad), "real connection trace rejected by ConnProp (Check=%s) at event %s" % (pid, json.dumps(bad)[:300]),
                        {"kind": "conn", "case": scripts[base + tno], "rejected_event": bad, "trace": t})
        if sample is None and a:
            sample = {"script": scripts[base]["steps"][:12], "trace": vlib.extract_trace(tf, 0)[:30]}
    distinct = len({json.dumps(s["steps"], sort_keys=True) for s in scripts})
    log("conn %s: %d scripts (%d distinct), %d traces accepted, %d rejected" % (pid, len(scripts), distinct, acc, nrej))
    cov = {
        "states": st["states"] + jst or 1, "transitions": st["transitions"] + jtr or 1,
        "model_states_exhaustive": st["states"],
        "traces_validated_against_impl": acc + nrej,
        "evaluations": len(scripts), "distinct_nontrivial": distinct,
        "rule": "scripts = one per distinct model state at the step bound of the exhaustively explored model + TLC -simulate scripts; "
                "each replayed on a real mtproto.Conn against the scripted harness server; distinct = distinct step lists",
        "samples": [sample] if sample else [{"script": scripts[0]["steps"][:12]}],
        "exhaustive": False,
    }
    return V.finish("model_checking", cov, [
        "ConnProp.tla is the verdict oracle; the driver waits for quiescence of all mtproto/rpc goroutines after every step",
        "the keep-alive ping timeout is a real context timeout (300 ms) judged after a 1.5 s wait; everything else runs on a fake clock"])
