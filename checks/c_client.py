"""C29: requests survive the loss of the primary connection without duplicate execution.
GEN: TLC explores Reconnect.tla for every assignment of server policies (answer, kill on arrival, acknowledge then kill,
answer then kill, acknowledge then answer, hold until the client is closed) to one or two requests, sequential and
concurrent, checks the C29 invariants and prints every terminal outcome.  DRIVE: harness/cmd/clientdrv runs a real
telegram.Client (reconnect loop, invokeConn retry, pool/rpc/mtproto stack) against a scripted MTProto server that applies the
policies.  The observed result and number of arrivals of every request must be one of the model's terminal outcomes."""
import os, json
import vlib
from vlib import log

SPEC = os.path.join(vlib.VERIF, "spec", "Client")


def run(pid, replay=None):
    thorough = vlib.tier() == "thorough"
    V = vlib.Verdict(pid)
    work = vlib.outdir(pid, "work", clean=True)
    states = trans = 0
    groups = {}
    if replay:
        rc = json.load(open(replay))["case"]
        groups[json.dumps(rc["case"], sort_keys=True)] = (rc["case"], rc["allowed"])
    else:
        for cfg in ("MC_seq1.cfg", "MC_seq2.cfg", "MC_conc2.cfg"):
            r = vlib.tlc_must_pass(vlib.run_tlc(pid, cfg[:-4], SPEC, "Reconnect", cfg, timeout=600), "Reconnect " + cfg)
            states += r.distinct
            trans += r.generated
            for c in r.lines:
                inp = {"concurrent": c["concurrent"], "reqs": c["reqs"]}
                k = json.dumps(inp, sort_keys=True)
                groups.setdefault(k, (inp, []))[1].append(c["outcome"])
        log("Reconnect: %d distinct states over 3 configurations, %d policy assignments" % (states, len(groups)))
    cases = [g[0] for g in groups.values()]
    allowed = [g[1] for g in groups.values()]
    binp = vlib.build_driver(pid, "clientdrv")
    cf = os.path.join(work, "cases.ndjson")
    rf = os.path.join(work, "results.ndjson")
    vlib.write_ndjson(cf, cases)
    reps = 5 if thorough else 2
    vlib.run_driver(binp, ["-in", cf, "-out", rf, "-reps", str(reps), "-seed", str(vlib.seed())], timeout=3000)
    res = vlib.read_ndjson(rf)
    if len(res) < len(cases) * reps:
        raise vlib.Infra("clientdrv produced %d results for %d cases" % (len(res), len(cases)))
    rk_total = rk_done = 0
    for r in res:
        c = cases[r["case"]]
        if "rekill_done" in r["got"]:
            rk_total += 1
            rk_done += 1 if r["got"]["rekill_done"] else 0
        got = [{"k": x["k"], "res": x["res"], "receipts": x["receipts"]} for x in r["got"]["reqs"]]
        if got not in allowed[r["case"]]:
            pols = ",".join(x["policy"] for x in c["reqs"])
            sig = "client:C29:%s:%s" % ("conc" if c["concurrent"] else "seq", pols)
            # the outcome with every send-failed request (error, never arrived) replaced by the model's (ok, arrived once)
            # being allowed means the only deviation is "a request whose write failed on a dying connection is not retried"
            fixed = [({"k": g["k"], "res": "ok", "receipts": 1} if (q["policy"] == "sendfail" and g["res"] == "err" and g["receipts"] == 0) else g)
                     for g, q in zip(got, c["reqs"])]
            if fixed != got and fixed in allowed[r["case"]]:
                sig = "client:C29:sendfail-not-retried"
            V.violation(sig,
                        "real client outcome is not a terminal outcome of Reconnect.tla: policies=%s concurrent=%s got=%s allowed=%s" % (
                            pols, c["concurrent"], json.dumps(got), json.dumps(allowed[r["case"]])),
                        {"kind": "client", "case": c, "allowed": allowed[r["case"]], "got": r["got"]})
    log("C29: %d policy assignments x %d runs on a real telegram.Client; kill-at-wake-up schedule realised in %d of %d runs" % (len(cases), reps, rk_done, rk_total))
    if rk_total and rk_done * 2 < rk_total and not V.viol:
        raise vlib.Infra("the kill_rekill schedule (second kill at the invoker's wake-up log record) was realised in only %d of %d runs: "
                         "the scheduling point is gone or the driver is too slow" % (rk_done, rk_total))
    cov = {"states": states or 1, "transitions": trans or 1, "traces_validated_against_impl": len(res),
           "evaluations": len(res), "distinct_nontrivial": len(cases),
           "rule": "cases = every assignment of the server policies (answer, kill, ack_kill, result_kill, ack_answer, hold, sendfail, kill_rekill) to one or two sequential requests and to two concurrent requests; "
                   "each run end to end on a real telegram.Client with a scripted MTProto server; distinct = distinct assignments",
           "samples": [{"case": cases[0], "allowed": allowed[0], "observed": res[0]["got"]},
                       {"case": cases[-1], "allowed": allowed[-1], "observed": res[-1]["got"]}],
           "exhaustive": not replay}
    return V.finish("model_checking", cov, [
        "Reconnect.tla is the oracle: the observed (result class, number of arrivals) of every request must be a terminal outcome of the model",
        "real time: reconnect backoff 20 ms, acknowledgement delivered 30 ms before the kill; 'answer then kill' allows both orders of result and death",
        "one primary connection, no pool connections, existing auth key (no key exchange)"])
