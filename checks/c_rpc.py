"""C24, C25, C26 — rpc.Engine: exactly-once completion, bounded retransmission, close/cancel."""
import os, json
import vlib
from vlib import log

SPEC = os.path.join(vlib.VERIF, "spec", "Rpc")

WHAT = {
    "C24": "each RPC call completes once with its own result and is then left alone",
    "C25": "bounded retransmission with the same identity, never after ack/result",
    "C26": "close/cancel never strands callers and classifies retryability",
}


def maximal_runs(lines):
    runs, prev = [], None
    for l in lines:
        h = l["hist"]
        if prev is not None and not (len(h) == len(prev) + 1 and h[:len(prev)] == prev):
            runs.append(prev)
        prev = h
    if prev:
        runs.append(prev)
    return [r for r in runs if len(r) >= 3]


# Hand-written directed schedules (the counterexamples TLC finds on the as-is model, see DESIGN §8).
DIRECTED = [
    # C24: result in flight (CAS done) while Do returns on close -> Output written after return
    [{"a": "Start", "i": 1}, {"a": "FirstSend", "i": 1, "ok": "ok"}, {"a": "Lookup", "j": 1, "i": 1, "k": "ok"},
     {"a": "Cas", "j": 1}, {"a": "FC"}, {"a": "RetrySel", "i": 1, "br": "closed"}, {"a": "Decode", "j": 1}],
    # same through user cancel
    [{"a": "Start", "i": 1}, {"a": "FirstSend", "i": 1, "ok": "ok"}, {"a": "Lookup", "j": 1, "i": 1, "k": "ok"},
     {"a": "Cas", "j": 1}, {"a": "Cancel", "i": 1}, {"a": "RetrySel", "i": 1, "br": "ctx"}, {"a": "WaitSel", "i": 1, "br": "ctx"},
     {"a": "Decode", "j": 1}],
    # lookup done (handler fetched) but CAS not yet; Do returns; late CAS+Decode
    [{"a": "Start", "i": 1}, {"a": "FirstSend", "i": 1, "ok": "ok"}, {"a": "Lookup", "j": 1, "i": 1, "k": "ok"},
     {"a": "Cancel", "i": 1}, {"a": "RetrySel", "i": 1, "br": "ctx"}, {"a": "WaitSel", "i": 1, "br": "ctx"},
     {"a": "Cas", "j": 1}, {"a": "Decode", "j": 1}],
    # C25: ack and retry timer both ready
    [{"a": "Start", "i": 1}, {"a": "FirstSend", "i": 1, "ok": "ok"}, {"a": "NotifyAck", "i": 1}, {"a": "Tick"},
     {"a": "RetrySel", "i": 1, "br": "timer", "ok": "ok"}],
    # C25: result delivered and timer both ready
    [{"a": "Start", "i": 1}, {"a": "FirstSend", "i": 1, "ok": "ok"}, {"a": "Tick"}, {"a": "Lookup", "j": 1, "i": 1, "k": "ok"},
     {"a": "Cas", "j": 1}, {"a": "Decode", "j": 1}, {"a": "RetrySel", "i": 1, "br": "timer", "ok": "ok"}],
    # retry limit
    [{"a": "Start", "i": 1}, {"a": "FirstSend", "i": 1, "ok": "ok"}, {"a": "Tick"}, {"a": "RetrySel", "i": 1, "br": "timer", "ok": "ok"},
     {"a": "Tick"}, {"a": "RetrySel", "i": 1, "br": "timer", "ok": "ok"}],
    # duplicate + foreign results
    [{"a": "Start", "i": 1}, {"a": "Start", "i": 2}, {"a": "FirstSend", "i": 1, "ok": "ok"}, {"a": "FirstSend", "i": 2, "ok": "ok"},
     {"a": "Lookup", "j": 1, "i": 1, "k": "ok"}, {"a": "Lookup", "j": 2, "i": 1, "k": "ok"}, {"a": "Cas", "j": 1}, {"a": "Cas", "j": 2},
     {"a": "Decode", "j": 1}, {"a": "RetrySel", "i": 1, "br": "ctx"}, {"a": "WaitSel", "i": 1, "br": "done"},
     {"a": "Lookup", "j": 3, "i": 1, "k": "ok"}, {"a": "Lookup", "j": 4, "i": 2, "k": "err"}, {"a": "Cas", "j": 4}, {"a": "Decode", "j": 4}],
    # close: acked vs not acked
    [{"a": "Start", "i": 1}, {"a": "Start", "i": 2}, {"a": "FirstSend", "i": 1, "ok": "ok"}, {"a": "FirstSend", "i": 2, "ok": "ok"},
     {"a": "NotifyAck", "i": 1}, {"a": "RetrySel", "i": 1, "br": "ack"}, {"a": "FC"}],
    # write blocked inside send while the engine is force-closed (first send / resend), then completes
    [{"a": "Start", "i": 1}, {"a": "FirstSend", "i": 1, "ok": "block"}, {"a": "FC"}, {"a": "SendDone", "i": 1}],
    [{"a": "Start", "i": 1}, {"a": "FirstSend", "i": 1, "ok": "ok"}, {"a": "Tick"}, {"a": "RetrySel", "i": 1, "br": "timer", "ok": "block"},
     {"a": "FC"}, {"a": "SendDone", "i": 1}],
    # write blocked while the caller cancels
    [{"a": "Start", "i": 1}, {"a": "FirstSend", "i": 1, "ok": "block"}, {"a": "Cancel", "i": 1}, {"a": "SendAbort", "i": 1}, {"a": "WaitSel", "i": 1, "br": "ctx"}],
    # cancel before / after send
    [{"a": "Start", "i": 1}, {"a": "Start", "i": 2}, {"a": "Cancel", "i": 1}, {"a": "FirstSend", "i": 1, "ok": "ok"},
     {"a": "FirstSend", "i": 2, "ok": "fail"}, {"a": "RetrySel", "i": 1, "br": "ctx"}, {"a": "WaitSel", "i": 1, "br": "ctx"}],
    # result routed (handler claimed) while the caller cancels: the call reports the cancellation or the result's error
    [{"a": "Start", "i": 1}, {"a": "FirstSend", "i": 1, "ok": "ok"}, {"a": "NotifyAck", "i": 1}, {"a": "RetrySel", "i": 1, "br": "ack"},
     {"a": "Lookup", "j": 1, "i": 1, "k": "err"}, {"a": "Cas", "j": 1}, {"a": "Cancel", "i": 1}, {"a": "WaitSel", "i": 1, "br": "ctx"}, {"a": "Decode", "j": 1}],
    # graceful Close waits; a following ForceClose must still cancel the pending calls
    [{"a": "Start", "i": 1}, {"a": "Start", "i": 2}, {"a": "FirstSend", "i": 1, "ok": "ok"}, {"a": "FirstSend", "i": 2, "ok": "ok"},
     {"a": "NotifyAck", "i": 1}, {"a": "RetrySel", "i": 1, "br": "ack"}, {"a": "GC"}, {"a": "Start", "i": 3}, {"a": "FC"}],
    # ack arrives while a re-send is stuck in the transport, the engine is force-closed, then the write fails:
    # the call was acknowledged, so it must not be reported as safe to retry
    [{"a": "Start", "i": 1}, {"a": "FirstSend", "i": 1, "ok": "ok"}, {"a": "Tick"}, {"a": "RetrySel", "i": 1, "br": "timer", "ok": "block"},
     {"a": "NotifyAck", "i": 1}, {"a": "FC"}, {"a": "SendBreak", "i": 1}],
    [{"a": "Start", "i": 1}, {"a": "FirstSend", "i": 1, "ok": "block"}, {"a": "NotifyAck", "i": 1}, {"a": "FC"}, {"a": "SendBreak", "i": 1}],
    # a retransmission the transport refuses ends the call (trace 1 mod 2: timers run out afterwards)
    [{"a": "Start", "i": 1}, {"a": "FirstSend", "i": 1, "ok": "ok"}, {"a": "Tick"}, {"a": "RetrySel", "i": 1, "br": "timer", "ok": "fail"}],
    [{"a": "Start", "i": 1}, {"a": "Start", "i": 2}, {"a": "FirstSend", "i": 1, "ok": "ok"}, {"a": "FirstSend", "i": 2, "ok": "ok"}, {"a": "Tick"},
     {"a": "RetrySel", "i": 1, "br": "timer", "ok": "fail"}, {"a": "RetrySel", "i": 2, "br": "timer", "ok": "ok"}],
]


def sig_of(bad, pid):
    ev = bad.get("ev", "?")
    s = "rpc:" + ev
    if ev == "DoReturn":
        s += ":" + str(bad.get("err"))
    return s


def run(pid, replay=None):
    thorough = vlib.tier() == "thorough"
    V = vlib.Verdict(pid)
    work = vlib.outdir(pid, "work", clean=True)
    mc = None
    if replay:
        case = json.load(open(replay))["case"]
        behs = [case["case"]]
        free_n = 0
    else:
        # (1) design half: exhaustive model of the engine
        cfg = "MC_thorough.cfg" if thorough else "MC_fixed.cfg"
        mc = vlib.run_tlc(pid, "mc", SPEC, "Rpc", cfg, timeout=5400, cache=True)
        if not os.environ.get("VERIF_DEV_SKIP_MC"):
            vlib.tlc_must_pass(mc, "Rpc " + cfg)
        log("Rpc %s: %d generated / %d distinct states, %.1fs" % (cfg, mc.generated, mc.distinct, mc.wall))
        # (2) behaviours: directed + TLC -simulate
        n = 4000 if thorough else 400
        s = vlib.run_tlc(pid, "sim", SPEC, "Rpc", "Sim.cfg", workers=1, timeout=900, simulate="num=%d" % n,
                         depth=45, seed_=vlib.seed())
        if s.timeout or not s.lines:
            raise vlib.Infra("simulate failed: " + s.raw[-800:])
        behs = [{"hist": h} for h in DIRECTED] + [{"hist": h} for h in maximal_runs(s.lines)]
        for k, b in enumerate(behs):
            b["runout"] = (k % 2 == 1)
        log("behaviours: %d directed + %d simulated" % (len(DIRECTED), len(behs) - len(DIRECTED)))
        free_n = 3000 if thorough else 300
    binp = vlib.build_driver(pid, "rpcdrv")
    bf = os.path.join(work, "behs.ndjson")
    vlib.write_ndjson(bf, behs)
    st = os.path.join(work, "sched.trace.ndjson")
    # timer/ack select races are resolved randomly by the Go runtime: replay each behaviour set several times
    reps = 1 if replay else (6 if thorough else 3)
    acc = 0
    jst = jtr = 0
    samples = []
    kinds = []
    for rep in range(reps):
        tf = st + ".%d" % rep
        vlib.run_driver(binp, ["-mode", "sched", "-in", bf, "-out", tf], timeout=3000)
        kinds.append(("sched", tf, behs))
    if free_n:
        ff = os.path.join(work, "free.trace.ndjson")
        vlib.run_driver(binp, ["-mode", "free", "-n", str(free_n), "-seed", str(vlib.seed()), "-out", ff], timeout=3000)
        kinds.append(("free", ff, None))
    for kind, tf, cases in kinds:
        a, rej, s1, s2 = vlib.judge_traces(pid, kind, SPEC, "RpcProp", "Prop_%s.cfg" % pid, tf, timeout=1200)
        acc += a
        jst += s1
        jtr += s2
        for tno, line in rej:
            t = vlib.extract_trace(tf, tno)
            with open(tf) as f:
                bad = json.loads(f.readlines()[line])
            V.violation(sig_of(bad, pid), "real rpc.Engine trace (%s) rejected by RpcProp[%s] at event %s" % (kind, pid, json.dumps(bad)),
                        {"kind": kind, "case": cases[tno] if cases else {"hist": []}, "trace": t, "rejected_event": bad})
        if not samples:
            samples.append({"kind": kind, "behaviour": (cases[0] if cases else None), "trace": vlib.extract_trace(tf, 0)})
    distinct = len({json.dumps(b, sort_keys=True) for b in behs})
    cov = {
        "states": (mc.distinct if mc else 0) + jst or 1,
        "transitions": (mc.generated if mc else 0) + jtr or 1,
        "traces_validated_against_impl": acc,
        "samples": samples,
        "evaluations": len(behs) * reps + free_n,
        "distinct_nontrivial": distinct,
        "rule": "distinct TLC behaviours (directed + -simulate of Rpc.tla: 3 requests, 4 notifications, refused / stuck / broken writes, graceful Close before ForceClose; every other behaviour ends with the retry timers running out) replayed with gates, "
                "each %d times (select races are resolved by the Go runtime); plus seeded free-running traces" % reps,
        "model_states_exhaustive": mc.distinct if mc else 0,
        "exhaustive": False,
    }
    return V.finish("model_checking", cov, [
        "RpcProp.tla (guards of %s only) is the verdict oracle" % pid,
        "gate granularity: a check-then-send inside one critical section is atomic; 'received' = Notify* returned",
        "free-running traces are not judged for ack/send ordering (no linearization point available)"])
