"""C02, C03 (and the manager-level part of C01): the updates manager.

GEN   TLC explores UpdatesMgr.tla exhaustively (invariants PersistBehind / AtMostOnce / InOrder / NoLoss / Level,
      crash inside any body) and prints one behaviour per distinct quiesced state; -simulate adds deep behaviours
      over larger logs (slices, channel limits, seq numbers, first-sight channels, one crash).
DRIVE harness/cmd/updmgr replays every behaviour on the real internalState / channelState bodies (loops parked),
      then once more per observable event with the process crashing there, restarting from storage and recovering.
JUDGE TLC validates every recorded trace against UpdatesProp.tla with Check = <property>; the projected client state
      after every body is compared with the model's (DRIFT only)."""
import os, json
import vlib
from vlib import log

SPEC = os.path.join(vlib.VERIF, "spec", "UpdatesMgr")


def _strip(post):
    if not isinstance(post, dict):
        return None
    out = {}
    for k, v in post.items():
        if k in ("pts", "qts", "seq", "ch"):
            out[k] = {"st": v["st"], "gaps": list(v["gaps"]), "pend": [{"s": u["s"], "e": u["e"]} for u in v["pend"]]}
        else:
            out[k] = v
    return out


def gen(pid, thorough):
    behs = []
    stats = {"states": 0, "transitions": 0}
    cfgs = ["MC_quick.cfg", "MC_quick2.cfg", "MC_quick3.cfg", "MC_quick4.cfg", "MC_quick5.cfg"] + (["MC_thorough.cfg", "MC_thorough2.cfg"] if thorough else [])
    only = os.environ.get("VERIF_DEV_UPD_ONLY")   # development aid: restrict to some configurations
    if only:
        cfgs = [c for c in cfgs if c[:-4] in only.split(",")]
    for cfg in cfgs:
        sink = []
        r = vlib.run_tlc(pid, "mc_" + cfg[:-4], SPEC, "UpdatesMgr", cfg, timeout=2400, line_sink=sink.append)
        vlib.tlc_must_pass(r, "UpdatesMgr " + cfg)
        stats["states"] += r.distinct
        stats["transitions"] += r.generated
        log("UpdatesMgr %s: %d generated / %d distinct states, depth %d, %.1fs, %d quiesced-state behaviours" % (
            cfg, r.generated, r.distinct, r.depth, r.wall, len(sink)))
        # cap the state cover of the big configurations: evenly spaced sample, deterministic
        cap = 2000 if thorough else 300
        if cfg == "MC_quick5.cfg":
            cap = 2000   # a small configuration whose interest lies in particular histories: keep them all
        if len(sink) > cap:
            step = len(sink) / float(cap)
            sink = [sink[int(k * step)] for k in range(cap)]
        behs += sink
    n = 500 if thorough else 100
    for cfg, depth in (("Sim_a.cfg", 15), ("Sim_b.cfg", 17), ("Sim_c.cfg", 17), ("Sim_d.cfg", 17)):
        if only and cfg[:-4] not in only.split(","):
            continue
        s = vlib.run_tlc(pid, "sim_" + cfg[:-4], SPEC, "UpdatesMgr", cfg, workers=1, timeout=1200,
                         simulate="num=%d" % n, depth=depth, seed_=vlib.seed())
        if s.timeout or s.violation or (not s.ok and not s.lines):
            raise vlib.Infra("simulate %s failed (violation=%s): %s" % (cfg, s.violation, s.raw[-1500:]))
        behs += s.lines
        log("simulate %s: %d behaviours" % (cfg, len(s.lines)))
    return behs, stats


def sig_of(check, bad, trace):
    ev = bad.get("ev")
    if ev == "h":
        return "updmgr:%s:handler:%s" % (check, bad.get("via"))
    if ev in ("s", "ss"):
        return "updmgr:%s:persist:%s" % (check, bad.get("k", "state"))
    if ev == "quiesced":
        logk = trace[0].get("log", [])
        seen = set()
        for e in trace:
            if e.get("ev") == "h":
                seen.update(e.get("ids", []))
        lost = sorted({logk[i - 1] for i in range(1, bad.get("produced", 0) + 1) if i not in seen})
        crash = any(e.get("ev") == "restart" for e in trace)
        return "updmgr:%s:lost:%s%s" % (check, "+".join(lost), ":aftercrash" if crash else "")
    return "updmgr:%s:%s" % (check, ev)


def part(pid, V, replay=None):
    """Runs the manager pipeline for property pid, adds violations to V, returns a coverage dict."""
    thorough = vlib.tier() == "thorough"
    work = vlib.outdir(pid, "updmgr", clean=True)
    if replay:
        behs = [replay["case"]]
        stats = {"states": 0, "transitions": 0}
    else:
        behs, stats = gen(pid, thorough)
    binp = vlib.build_driver(pid, "updmgr")
    bf = os.path.join(work, "behs.ndjson")
    tf = os.path.join(work, "trace.ndjson")
    vlib.write_ndjson(bf, behs)
    vlib.run_driver(binp, ["-in", bf, "-out", tf, "-final", "-crashall"], timeout=3000)
    # index: trace number -> (behaviour index, crashAt)
    idx = {}
    posts = {}
    cur = None
    ci = -1
    with open(tf) as f:
        for l in f:
            if '"ev":"reset"' in l:
                e = json.loads(l)
                cur = e["trace"]
                if e["crashAt"] == -1:
                    ci += 1
                    posts[ci] = []
                idx[cur] = (ci, e["crashAt"])
            elif '"ev":"post"' in l and idx[cur][1] == -1:
                posts[ci].append(json.loads(l))
    acc, rej, jst, jtr = vlib.judge_traces(pid, "updmgr", SPEC, "UpdatesProp", "Prop_%s.cfg" % pid, tf, timeout=3000,
                                           max_viol=5)
    with open(tf) as f:
        lines = f.readlines()
    for tno, line in rej:
        t = vlib.extract_trace(tf, tno)
        bad = json.loads(lines[line])
        ci_, crash_at = idx.get(tno, (0, -1))
        V.violation(sig_of(pid, bad, t),
                    "real updates manager trace rejected by UpdatesProp (Check=%s) at event %s; log=%s crashAt=%d" % (
                        pid, json.dumps(bad), t[0].get("log"), crash_at),
                    {"kind": "updmgr", "case": behs[ci_], "crashAt": crash_at, "rejected_event": bad,
                     "trace": [e for e in t if e.get("ev") != "post"]})
    # fidelity: projected client state after every body vs. the model
    drift = 0
    compared = 0
    for k, b in enumerate(behs):
        got = posts.get(k, [])
        exp = [h for h in b["hist"]]
        for j, h in enumerate(exp):
            if j >= len(got):
                break
            e = _strip(h.get("post"))
            if not e:
                continue
            compared += 1
            g = {kk: got[j].get(kk) for kk in e}
            d = vlib.compare_expect(e, g)
            if d:
                drift += 1
                if drift <= 5:
                    log("DRIFT module=UpdatesMgr behaviour=%d step=%d (%s) diff=%s\n   model=%s\n   code =%s" % (
                        k, j, h.get("a"), d[:4], json.dumps(e), json.dumps(g)))
                break
    ntr = len(idx)
    ncrash = len([1 for v in idx.values() if v[1] >= 0])
    distinct = len({json.dumps([b["log"], b["tracked0"], [[h["a"], h.get("i"), h.get("j"), h.get("ws"), h.get("crash")] for h in b["hist"]]]) for b in behs})
    log("updmgr: %d behaviours (%d distinct) -> %d traces (%d with an injected crash), %d accepted, %d rejected; fidelity %d bodies compared, %d drift" % (
        len(behs), distinct, ntr, ncrash, acc, len(rej), compared, drift))
    sample = None
    if behs:
        sample = {"behaviour": {"log": behs[-1]["log"], "actions": [[h["a"], h.get("i")] for h in behs[-1]["hist"]]},
                  "trace": [e for e in vlib.extract_trace(tf, max(idx))[:40] if e.get("ev") not in ("post",)]}
    return {
        "states": stats["states"] + jst, "transitions": stats["transitions"] + jtr,
        "model_states_exhaustive": stats["states"],
        "traces_validated_against_impl": acc + len(rej),
        "evaluations": ntr, "distinct_nontrivial": distinct + ncrash,
        "behaviours": len(behs), "crash_traces": ncrash, "drift_bodies": drift, "bodies_compared": compared,
        "samples": [sample] if sample else [],
    }


def run(pid, replay=None):
    V = vlib.Verdict(pid)
    rc = json.load(open(replay))["case"] if replay else None
    cov = part(pid, V, replay=rc)
    cov["rule"] = ("behaviours = one per distinct quiesced state of the exhaustively explored UpdatesMgr graph + TLC -simulate "
                   "behaviours; each replayed on the real manager bodies once without crash and once per observable event with a "
                   "crash there (restart from storage + recovery); distinct = distinct (log, action list) + crash points")
    cov["exhaustive"] = False
    return V.finish("model_checking", cov, [
        "UpdatesProp.tla is the verdict oracle; UpdatesMgr.tla mismatches are DRIFT only",
        "honest server: differences are computed from the produced prefix of the log; one channel; dates not modelled",
        "loop bodies run one at a time (main worker and channel worker share only the bounded queues)"])
