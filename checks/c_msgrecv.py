"""C07 — only fresh, in-session, correctly padded server messages are accepted.
Part 1 (here): replay window proto.MessageIDBuf, model + replay + TLC judge.
Part 2: header/padding/session/time classes through the real connection (conn driver), when available."""
import os, json
import vlib
from vlib import log

SPEC = os.path.join(vlib.VERIF, "spec", "MsgLayer")


def run(pid, replay=None):
    thorough = vlib.tier() == "thorough"
    V = vlib.Verdict(pid)
    work = vlib.outdir(pid, "work", clean=True)
    mc = None
    if replay:
        hists = [json.load(open(replay))["case"]["case"]]
    else:
        mc = vlib.tlc_must_pass(vlib.run_tlc(pid, "mc", SPEC, "MsgIdBuf", "MsgIdBuf_mc.cfg", timeout=900), "MsgIdBuf mc")
        hists = mc.lines
        s = vlib.run_tlc(pid, "sim", SPEC, "MsgIdBuf", "MsgIdBuf_sim.cfg", workers=1, timeout=600,
                         simulate="num=%d" % (5000 if thorough else 500), depth=17, seed_=vlib.seed())
        hists = hists + s.lines
        log("MsgIdBuf: %d distinct states, %d exhaustive id histories (N=3, ids 1..5, 6 calls) + %d simulated (N=4, ids 1..9, 16 calls)" % (
            mc.distinct, len(mc.lines), len(s.lines)))
    binp = vlib.build_driver(pid, "msgid")
    cf = os.path.join(work, "hists.ndjson")
    tf = os.path.join(work, "hists.trace.ndjson")
    vlib.write_ndjson(cf, hists)
    vlib.run_driver(binp, ["-mode", "idbuf", "-in", cf, "-out", tf])
    acc, rej, s1, s2 = vlib.judge_traces(pid, "idbuf", SPEC, "MsgRecvProp", "MsgRecvProp.cfg", tf)
    for tno, line in rej:
        t = vlib.extract_trace(tf, tno)
        bad = json.loads(open(tf).readlines()[line])
        V.violation("idbuf:replay-accepted", "real MessageIDBuf accepted a replayed / too low id: %s in history %s" % (json.dumps(bad), json.dumps(hists[tno])),
                    {"kind": "idbuf", "case": hists[tno], "trace": t, "rejected_event": bad})
    import c_conn
    extra = c_conn.run_part(pid, V, work, replay)
    # padding clause at cipher level: TLC-enumerated padding / length-field classes against the real crypto.Cipher.Decrypt
    if not replay or json.load(open(replay))["case"].get("kind") == "cases":
        pc = vlib.tlc_must_pass(vlib.run_tlc(pid, "padcases", os.path.join(vlib.VERIF, "spec", "Crypto"), "MsgCrypt", "MsgCrypt.cfg", workers=1, timeout=600), "MsgCrypt cases")
        cases = [c for c in pc.lines if c.get("prop") == "C07"]
        fb = vlib.build_driver(pid, "fdrv")
        pf, rf = os.path.join(work, "pad.cases.ndjson"), os.path.join(work, "pad.results.ndjson")
        vlib.write_ndjson(pf, cases)
        vlib.run_driver(fb, ["-module", "msgcrypt", "-in", pf, "-out", rf, "-reps", "20" if thorough else "4", "-seed", str(vlib.seed())])
        res = vlib.read_ndjson(rf)
        for r_ in res:
            c = cases[r_["case"]]
            d = vlib.compare_expect(c["expect"], r_["got"])
            if "panic" in r_["got"] or d:
                V.violation("cipher:padding:%s" % json.dumps(c["in"], sort_keys=True), "real Cipher.Decrypt differs from the padding rule of C07: case=%s got=%s" % (
                    json.dumps(c["in"]), json.dumps(r_["got"])), {"kind": "cases", "case": c, "got": r_["got"]})
        extra["evaluations"] = extra.get("evaluations", 0) + len(res)
        extra["distinct"] = extra.get("distinct", 0) + len(cases)
        log("padding cases: %d cases, %d evaluations" % (len(cases), len(res)))
    cov = {"states": (mc.distinct if mc else 0) + s1 or 1, "transitions": (mc.generated if mc else 0) + s2 or 1,
           "traces_validated_against_impl": acc + extra.get("traces", 0),
           "samples": [{"history": hists[0], "trace": vlib.extract_trace(tf, 0)}] + extra.get("samples", []),
           "evaluations": len(hists) + extra.get("evaluations", 0), "distinct_nontrivial": len({json.dumps(h) for h in hists}) + extra.get("distinct", 0),
           "rule": "every id history of length 6 over 5 ids with a 3-slot window (exhaustive) plus simulated histories of 16 ids with a 4-slot window, "
                   "replayed on the real proto.MessageIDBuf of the same size" + extra.get("rule", ""),
           "exhaustive": not replay}
    return V.finish("model_checking", cov, ["MsgRecvProp.tla is the verdict oracle (necessary condition for acceptance)",
                                            "abstract ids are scaled to realistic server message ids"])
