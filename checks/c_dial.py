"""C42 — racing dials return one connection and close the rest."""
import os, json
import vlib
from vlib import log
from c_rpc import maximal_runs

SPEC = os.path.join(vlib.VERIF, "spec", "Dial")


def run(pid, replay=None):
    thorough = vlib.tier() == "thorough"
    V = vlib.Verdict(pid)
    work = vlib.outdir(pid, "work", clean=True)
    st = tr_ = 0
    if replay:
        behs = [json.load(open(replay))["case"]["case"]]
        free_n = 0
    else:
        behs = []
        for k in ((2, 3, 4) if thorough else (2, 3)):
            mc = vlib.tlc_must_pass(vlib.run_tlc(pid, "mc%d" % k, SPEC, "Dial", "MC_%d.cfg" % k, timeout=900), "Dial MC_%d" % k)
            st += mc.distinct; tr_ += mc.generated
            s = vlib.run_tlc(pid, "sim%d" % k, SPEC, "Dial", "Sim_%d.cfg" % k, workers=1, timeout=600,
                             simulate="num=%d" % (1500 if thorough else 250), depth=30, seed_=vlib.seed())
            behs += [{"k": k, "hist": h} for h in maximal_runs(s.lines)]
        # dedupe
        uniq = {}
        for b in behs:
            uniq.setdefault(json.dumps(b, sort_keys=True), b)
        behs = list(uniq.values())
        log("Dial: %d model states; %d distinct behaviours" % (st, len(behs)))
        free_n = 3000 if thorough else 400
    binp = vlib.build_driver(pid, "dialdrv")
    bf = os.path.join(work, "behs.ndjson")
    vlib.write_ndjson(bf, behs)
    kinds = []
    for rep in range(1 if replay else 2):
        tf = os.path.join(work, "sched.%d.trace.ndjson" % rep)
        vlib.run_driver(binp, ["-mode", "sched", "-in", bf, "-out", tf], timeout=3000)
        kinds.append(("sched", tf, behs))
    if free_n:
        ff = os.path.join(work, "free.trace.ndjson")
        vlib.run_driver(binp, ["-mode", "free", "-n", str(free_n), "-seed", str(vlib.seed()), "-out", ff], timeout=3000)
        kinds.append(("free", ff, None))
    acc = 0
    samples = []
    for kind, tf, cases in kinds:
        a, rej, s1, s2 = vlib.judge_traces(pid, kind, SPEC, "DialProp", "DialProp.cfg", tf)
        acc += a; st += s1; tr_ += s2
        for tno, line in rej:
            t = vlib.extract_trace(tf, tno)
            bad = json.loads(open(tf).readlines()[line])
            V.violation("dial:" + bad.get("ev", "?"), "real dcs.Plain trace (%s) rejected by DialProp at %s; trace=%s" % (kind, json.dumps(bad), json.dumps(t)[:600]),
                        {"kind": kind, "case": cases[tno] if cases else {}, "trace": t, "rejected_event": bad})
        if not samples:
            samples.append({"kind": kind, "behaviour": cases[0] if cases else None, "trace": vlib.extract_trace(tf, 0)})
    cov = {"states": st or 1, "transitions": tr_ or 1, "traces_validated_against_impl": acc, "samples": samples,
           "evaluations": len(behs) * 2 + free_n, "distinct_nontrivial": len(behs),
           "rule": "distinct TLC behaviours of Dial.tla (2..4 dialers, every completion order/outcome, late successes, caller cancel) replayed with the main "
                   "loop gated before each select and a fake dialer that ignores ctx; plus free-running races with 2..5 dialers",
           "exhaustive": False}
    return V.finish("model_checking", cov, ["DialProp.tla is the verdict oracle", "late success = the fake dial returns a connection although the race context is cancelled"])
