"""C01 — sequenced updates reach the handler in order and at most once (sequence-box level
plus manager level via c_updmgr when available)."""
import os, json
import vlib
from vlib import log

SPEC = os.path.join(vlib.VERIF, "spec", "SeqBox")


def gen(pid, thorough):
    # (1) design half: exhaustive bounded model, invariants + action properties
    cfg = "MC_thorough.cfg" if thorough else "MC_quick.cfg"
    r = vlib.tlc_must_pass(vlib.run_tlc(pid, "mc", SPEC, "SeqBox", cfg, timeout=1500), "SeqBox " + cfg)
    log("SeqBox %s: %d generated / %d distinct states, depth %d, %.1fs" % (cfg, r.generated, r.distinct, r.depth, r.wall))
    # (2) edge dump of the smaller graph: one implementation test per transition
    e = vlib.tlc_must_pass(vlib.run_tlc(pid, "edges", SPEC, "SeqBox", "MC_edges.cfg", timeout=900), "SeqBox edges")
    seen = {}
    for ed in e.lines:
        k = json.dumps([ed["from"], ed["act"]], sort_keys=True)
        if k not in seen:
            seen[k] = ed
    edges = list(seen.values())
    log("edge dump: %d edges, %d distinct (state, action) pairs" % (len(e.lines), len(edges)))
    # (3) deep random behaviours beyond the exhaustive bound
    n = 3000 if thorough else 300
    s = vlib.run_tlc(pid, "sim", SPEC, "SeqBox", "Sim.cfg", workers=1, timeout=600,
                     simulate="num=%d" % n, depth=15, seed_=vlib.seed())
    if s.timeout or (not s.ok and not s.lines):
        raise vlib.Infra("simulate failed: " + s.raw[-800:])
    hists = s.lines
    log("simulate: %d histories of length 14" % len(hists))
    return r, e, edges, hists


def run(pid, replay=None):
    thorough = vlib.tier() == "thorough"
    V = vlib.Verdict(pid)
    work = vlib.outdir(pid, "work", clean=True)
    if replay:
        case = json.load(open(replay))["case"]
        edges = [case["case"]] if case.get("kind") == "edge" else []
        if case.get("kind") == "updmgr":
            edges = []
        hists = [case["case"]] if case.get("kind") == "path" else []
        r = e = None
    else:
        r, e, edges, hists = gen(pid, thorough)
    binp = vlib.build_driver(pid, "seqbox")
    ef = os.path.join(work, "edges.ndjson")
    hf = os.path.join(work, "hists.ndjson")
    vlib.write_ndjson(ef, edges)
    vlib.write_ndjson(hf, hists)
    et = os.path.join(work, "edges.trace.ndjson")
    ht = os.path.join(work, "hists.trace.ndjson")
    fid = os.path.join(work, "edges.fid.ndjson")
    if edges:
        vlib.run_driver(binp, ["-mode", "edges", "-in", ef, "-out", et, "-fid", fid])
    if hists:
        vlib.run_driver(binp, ["-mode", "paths", "-in", hf, "-out", ht])
    acc = 0
    jst = jtr = 0
    samples = []
    for kind, tf, cases in (("edge", et, edges), ("path", ht, hists)):
        if not cases:
            continue
        a, rej, st, trn = vlib.judge_traces(pid, kind, SPEC, "SeqProp", "SeqProp.cfg", tf)
        acc += a
        jst += st
        jtr += trn
        for tno, line in rej:
            t = vlib.extract_trace(tf, tno)
            with open(tf) as f:
                bad = json.loads(f.readlines()[line])
            V.violation("seqbox:" + bad.get("ev", "?"),
                        "real sequenceBox trace rejected by SeqProp at event %s" % json.dumps(bad),
                        {"kind": kind, "case": cases[tno], "trace": t, "rejected_event": bad})
        if cases:
            samples.append({"kind": kind, "case": cases[0], "trace": vlib.extract_trace(tf, 0)})
    # fidelity (drift): observed successor vs. SeqBox.tla successor
    drift = 0
    if edges:
        for o in vlib.read_ndjson(fid):
            exp = edges[o["case"]]["to"]
            d = vlib.compare_expect({k: exp[k] for k in ("state", "gaps", "pending")}, o["got"])
            if d:
                drift += 1
                if drift <= 5:
                    log("DRIFT module=SeqBox case=%d diff=%s edge=%s got=%s" % (o["case"], d, json.dumps(edges[o["case"]]), json.dumps(o["got"])))
    # manager level: main/channel worker bodies, queues, differences (UpdatesMgr.tla / UpdatesProp.tla Check=C01)
    mgr = None
    if not replay or case.get("kind") == "updmgr":
        import c_updmgr
        mgr = c_updmgr.part(pid, V, replay=case if replay else None)
    nontriv = len([e_ for e_ in edges if e_["from"] != e_["to"]])
    cov = {
        "states": (r.distinct if r else 0) + (e.distinct if e else 0) + jst or 1,
        "transitions": (r.generated if r else 0) + (e.generated if e else 0) + jtr or 1,
        "traces_validated_against_impl": acc,
        "samples": samples[:2],
        "evaluations": len(edges) + len(hists),
        "distinct_nontrivial": nontriv + len(hists),
        "rule": "edges: distinct (state, action) pairs of the exhaustively explored SeqBox graph (MaxPts 3, count<=2, 4 arrivals) "
                "whose successor differs from the source; paths: TLC -simulate histories of 14 steps over pts 1..9",
        "exhaustive": bool(edges) and not replay,
        "model_states_exhaustive": r.distinct if r else 0,
        "drift_edges": drift,
    }
    if mgr:
        cov["states"] += mgr["states"]
        cov["transitions"] += mgr["transitions"]
        cov["traces_validated_against_impl"] += mgr["traces_validated_against_impl"]
        cov["evaluations"] += mgr["evaluations"]
        cov["distinct_nontrivial"] += mgr["distinct_nontrivial"]
        cov["samples"] = (cov["samples"] + mgr["samples"])[:3]
        cov["manager_level"] = {k: mgr[k] for k in ("behaviours", "crash_traces", "drift_bodies", "bodies_compared", "model_states_exhaustive")}
    return V.finish("model_checking", cov, [
        "SeqProp.tla is the verdict oracle; SeqBox.tla mismatches are reported as DRIFT only",
        "updates with pts/qts/seq position 0 are outside the server log model"])
